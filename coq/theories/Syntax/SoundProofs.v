(* C10 — soundness of the parser model on the expression core: whatever it accepts
   is the print of a well-formed derivation tree of the documented grammar, and
   the returned tree is the one the documentation prescribes for it.
   Core token lists: no newline, no trailing comma. *)
From Coq Require Import List NArith ZArith Bool Arith Lia.
From NV Require Import Syntax.Token Syntax.Ast Syntax.StmtAst Syntax.StrEsc Syntax.Parser Syntax.Grammar
     Syntax.ParserProofs.
Import ListNotations.
Local Open Scope nat_scope.
Local Arguments Nat.leb : simpl never.
Local Arguments Nat.ltb : simpl never.

Definition coretok (t : token) : bool :=
  match t with TNewline => false | _ => true end.
Fixpoint notrail (ts : list token) : bool :=
  match ts with
  | TComma :: ((TRParen :: _) as r) => false
  | TComma :: ((TRBracket :: _) as r) => false
  | TComma :: ((TRCurly :: _) as r) => false
  | _ :: r => notrail r
  | [] => true
  end.
Definition core (ts : list token) : bool := forallb coretok ts && notrail ts.

Lemma core_tail : forall t r, core (t :: r) = true -> core r = true.
Proof.
  intros t r H. unfold core in *. simpl in H. apply andb_prop in H. destruct H as [H1 H2].
  apply andb_prop in H1. destruct H1 as [_ H1]. rewrite H1. simpl.
  destruct t; try exact H2. destruct r as [|t2 r2]; [reflexivity|]. destruct t2; try exact H2; discriminate.
Qed.

Lemma core_app_r : forall a b, core (a ++ b) = true -> core b = true.
Proof. induction a; intros b H; [exact H|]. apply IHa. simpl in H. eapply core_tail. exact H. Qed.

Lemma core_head : forall t r, core (t :: r) = true -> coretok t = true.
Proof. intros t r H. unfold core in H. simpl in H. apply andb_prop in H. destruct H as [H _]. apply andb_prop in H. tauto. Qed.

Lemma core_skip : forall ts, core ts = true -> skip_empty_lines ts = ts.
Proof. intros [|t r] H; [reflexivity|]. apply core_head in H. destruct t; try reflexivity. discriminate. Qed.

Lemma core_notrail : forall r, core (TComma :: TRParen :: r) = true -> False.
Proof. intros r H. unfold core in H. apply andb_prop in H. destruct H as [_ H]. simpl in H. discriminate. Qed.
Lemma core_notrail_b : forall r, core (TComma :: TRBracket :: r) = true -> False.
Proof. intros r H. unfold core in H. apply andb_prop in H. destruct H as [_ H]. simpl in H. discriminate. Qed.
Lemma core_notrail_c : forall r, core (TComma :: TRCurly :: r) = true -> False.
Proof. intros r H. unfold core in H. apply andb_prop in H. destruct H as [_ H]. simpl in H. discriminate. Qed.

(* after a tree that ends at call level the parser has looked at the next token: it is
   neither `(` nor `.` *)
Definition cpost (t : sx) (rest : list token) : Prop :=
  ends_call t = true -> match rest with tok :: _ => callcont tok = false | [] => True end.

Ltac conj := repeat match goal with |- _ /\ _ => split end.

Definition Sound (d k : nat) : Prop :=
  forall ts e rest, core ts = true -> L d k ts = Ok e rest ->
  exists t, wf t = true /\ k <= lvl t /\ desugar t = e /\ ts = pr t ++ rest /\ (k <= 15 -> cpost t rest).

Lemma bind_ok : forall A B (r : res A) (k : A -> list token -> res B) b rest,
  bind r k = Ok b rest -> exists a r1, r = Ok a r1 /\ k a r1 = Ok b rest.
Proof. intros A B r k b rest H. destruct r; simpl in H; try discriminate. eauto. Qed.

Lemma cpost_same : forall t t' rest, ends_call t' = ends_call t -> cpost t rest -> cpost t' rest.
Proof. intros t t' rest E H. unfold cpost in *. rewrite E. exact H. Qed.

(* ---- the generic binary level *)
Lemma binop_loop_sound : forall (ops : token -> option binop) (next : parser) k,
  k <= 14 ->
  (forall tok op, ops tok = Some op -> binlevel tok = Some k /\ binop_of tok = op) ->
  (forall ts e rest, core ts = true -> next ts = Ok e rest ->
     exists t, wf t = true /\ S k <= lvl t /\ desugar t = e /\ ts = pr t ++ rest /\ cpost t rest) ->
  forall n ta ts e rest,
    core ts = true -> wf ta = true -> k <= lvl ta -> cpost ta ts ->
    binop_loop n ops next (desugar ta) ts = Ok e rest ->
    exists t, wf t = true /\ k <= lvl t /\ desugar t = e /\ pr ta ++ ts = pr t ++ rest /\ cpost t rest.
Proof.
  intros ops next k Hk Hops Hnext. induction n; intros ta ts e rest C W Lv CP H; [discriminate|].
  simpl in H. destruct ts as [|tok r].
  - inversion H; subst. exists ta. repeat split; auto.
  - destruct (ops tok) as [op|] eqn:O.
    + apply bind_ok in H. destruct H as (rhs & r1 & E1 & H).
      destruct (Hops tok op O) as [B1 B2].
      destruct (Hnext r rhs r1 (core_tail _ _ C) E1) as (tb & Wb & Lb & Db & Eb & CPb).
      assert (Wn : wf (SBin tok ta tb) = true).
      { simpl. rewrite B1, W, Wb. simpl. apply andb_true_intro. split; apply Nat.leb_le; assumption. }
      assert (Ln : k <= lvl (SBin tok ta tb)) by (simpl; rewrite B1; lia).
      assert (Cr1 : core r1 = true).
      { apply (core_app_r (pr tb)). rewrite <- Eb. eapply core_tail. exact C. }
      destruct (IHn (SBin tok ta tb) r1 e rest Cr1 Wn Ln) as (t & Wt & Lt & Dt & Et & CPt).
      * eapply cpost_same; [|exact CPb]. reflexivity.
      * simpl. rewrite B2, Db. exact H.
      * exists t. repeat split; auto. rewrite <- Et. simpl. rewrite <- app_assoc. simpl. rewrite Eb. reflexivity.
    + inversion H; subst. exists ta. repeat split; auto.
Qed.

Lemma parse_binop_sound : forall (ops : token -> option binop) (next : parser) k,
  k <= 14 ->
  (forall tok op, ops tok = Some op -> binlevel tok = Some k /\ binop_of tok = op) ->
  (forall ts e rest, core ts = true -> next ts = Ok e rest ->
     exists t, wf t = true /\ S k <= lvl t /\ desugar t = e /\ ts = pr t ++ rest /\ cpost t rest) ->
  forall ts e rest, core ts = true -> parse_binop ops next ts = Ok e rest ->
    exists t, wf t = true /\ k <= lvl t /\ desugar t = e /\ ts = pr t ++ rest /\ cpost t rest.
Proof.
  intros ops next k Hk Hops Hnext ts e rest C H. unfold parse_binop in H.
  apply bind_ok in H. destruct H as (e1 & r1 & E1 & H).
  destruct (Hnext ts e1 r1 C E1) as (ta & Wa & La & Da & Ea & CPa).
  subst e1.
  assert (Cr1 : core r1 = true) by (apply (core_app_r (pr ta)); rewrite <- Ea; exact C).
  destruct (binop_loop_sound ops next k Hk Hops Hnext _ ta r1 e rest Cr1 Wa ltac:(lia) CPa H)
    as (t & Wt & Lt & Dt & Et & CPt).
  exists t. repeat split; auto. rewrite Ea. exact Et.
Qed.

Lemma ops_per_spec : forall tok op, ops_per tok = Some op -> binlevel tok = Some 9 /\ binop_of tok = op.
Proof. intros tok op H. destruct tok; try discriminate; inversion H; split; reflexivity. Qed.
Lemma ops_factor_spec : forall tok op, ops_factor tok = Some op -> binlevel tok = Some 8 /\ binop_of tok = op.
Proof. intros tok op H. destruct tok; try discriminate; inversion H; split; reflexivity. Qed.
Lemma ops_term_spec : forall tok op, ops_term tok = Some op -> binlevel tok = Some 7 /\ binop_of tok = op.
Proof. intros tok op H. destruct tok; try discriminate; inversion H; split; reflexivity. Qed.
Lemma ops_comparison_spec : forall tok op, ops_comparison tok = Some op -> binlevel tok = Some 6 /\ binop_of tok = op.
Proof. intros tok op H. destruct tok; try discriminate; inversion H; split; reflexivity. Qed.
Lemma ops_and_spec : forall tok op, ops_and tok = Some op -> binlevel tok = Some 4 /\ binop_of tok = op.
Proof. intros tok op H. destruct tok; try discriminate; inversion H; split; reflexivity. Qed.
Lemma ops_or_spec : forall tok op, ops_or tok = Some op -> binlevel tok = Some 3 /\ binop_of tok = op.
Proof. intros tok op H. destruct tok; try discriminate; inversion H; split; reflexivity. Qed.
Lemma ops_conversion_spec : forall tok op, ops_conversion tok = Some op -> binlevel tok = Some 2 /\ binop_of tok = op.
Proof. intros tok op H. destruct tok; try discriminate; inversion H; split; reflexivity. Qed.

Lemma count_excl_spec : forall ts k r, count_excl ts = (k, r) ->
  ts = repeat TExcl k ++ r /\ match r with TExcl :: _ => False | _ => True end.
Proof.
  induction ts as [|t ts IH]; intros k r H; simpl in H.
  - inversion H; subst. split; [reflexivity|exact I].
  - destruct t; try (inversion H; subst; split; [reflexivity|exact I]).
    destruct (count_excl ts) as [k' r'] eqn:E. inversion H; subst.
    destruct (IH k' r eq_refl) as [E1 E2]. split; [simpl; rewrite <- E1; reflexivity|exact E2].
Qed.

Section Levels.
  Variable ex : parser.
  Hypothesis Hex : forall ts e rest, core ts = true -> ex ts = Ok e rest ->
    exists t, wf t = true /\ desugar t = e /\ ts = pr t ++ rest.

  Lemma arguments_loop_comma_eq : forall n args r, core (TComma :: r) = true ->
    arguments_loop ex (S n) args (TComma :: r) =
    match ex r with
    | Ok e rest => arguments_loop ex n (args ++ [e]) rest
    | Err _ => Err MissingClosingParen
    | OutOfFuel => OutOfFuel
    | Unsupported => Unsupported
    end.
  Proof.
    intros n args r C. simpl. rewrite (core_skip r) by (eapply core_tail; eauto).
    destruct r as [|t2 r2]; [reflexivity|]. destruct t2; try reflexivity.
    exfalso. eapply core_notrail; eauto.
  Qed.

  Lemma arguments_loop_sound : forall n targs ts args' rest,
    core ts = true -> forallb wf targs = true ->
    arguments_loop ex n (map desugar targs) ts = Ok args' rest ->
    exists more, forallb wf more = true /\ args' = map desugar (targs ++ more)
                 /\ ts = tailp more ++ TRParen :: rest.
  Proof.
    induction n; intros targs ts args' rest C W H; [discriminate|].
    destruct ts as [|tok r]; [simpl in H; discriminate|].
    destruct tok; try (simpl in H; discriminate).
    - (* TRParen *) simpl in H. inversion H; subst. exists []. rewrite app_nil_r. repeat split; reflexivity.
    - (* TComma *)
      rewrite arguments_loop_comma_eq in H by exact C.
      destruct (ex r) as [e r1| | |] eqn:E; try discriminate.
      destruct (Hex r e r1 (core_tail _ _ C) E) as (t & Wt & Dt & Et).
      assert (Cr1 : core r1 = true) by (apply (core_app_r (pr t)); rewrite <- Et; eapply core_tail; eauto).
      assert (W' : forallb wf (targs ++ [t]) = true) by (rewrite forallb_app, W; simpl; rewrite Wt; reflexivity).
      assert (H' : arguments_loop ex n (map desugar (targs ++ [t])) r1 = Ok args' rest).
      { rewrite map_app. simpl. rewrite Dt. exact H. }
      destruct (IHn (targs ++ [t]) r1 args' rest Cr1 W' H') as (more & Wm & Em & Tm).
      exists (t :: more). repeat split.
      + simpl. rewrite Wt, Wm. reflexivity.
      + rewrite Em. rewrite <- app_assoc. reflexivity.
      + simpl. rewrite Et, Tm. rewrite <- app_assoc. reflexivity.
  Qed.

  Lemma arguments_sound : forall ts args rest, core ts = true -> arguments ex ts = Ok args rest ->
    exists targs, forallb wf targs = true /\ args = map desugar targs
                  /\ ts = pr_args targs ++ TRParen :: rest.
  Proof.
    intros ts args rest C H. unfold arguments in H. rewrite (core_skip ts C) in H.
    assert (Gen : bind (ex ts) (fun e rest => arguments_loop ex (S (length rest)) [e] rest) = Ok args rest ->
                  exists targs, forallb wf targs = true /\ args = map desugar targs
                                /\ ts = pr_args targs ++ TRParen :: rest).
    { intros H'. apply bind_ok in H'. destruct H' as (e & r1 & E & H').
      destruct (Hex ts e r1 C E) as (t & Wt & Dt & Et).
      assert (Cr1 : core r1 = true) by (apply (core_app_r (pr t)); rewrite <- Et; exact C).
      destruct (arguments_loop_sound (S (length r1)) [t] r1 args rest Cr1) as (more & Wm & Em & Tm).
      - simpl. rewrite Wt. reflexivity.
      - simpl. rewrite Dt. exact H'.
      - exists (t :: more). repeat split.
        + simpl. rewrite Wt, Wm. reflexivity.
        + exact Em.
        + rewrite pr_args_cons. rewrite Et, Tm. rewrite <- app_assoc. reflexivity. }
    destruct ts as [|tok r]; [apply Gen; exact H|].
    destruct tok; try (apply Gen; exact H).
    inversion H; subst. exists []. repeat split; reflexivity.
  Qed.

  Lemma pr_args_head : forall more X Y, forallb wf more = true ->
    pr_args more ++ X = TRBracket :: Y -> more = [].
  Proof.
    intros [|a r] X Y W H; [reflexivity|]. simpl in W. apply andb_prop in W. destruct W as [Wa _].
    destruct (pr_first a Wa) as (tok & ra & E & Fi & _). rewrite pr_args_cons, E in H. simpl in H.
    inversion H; subst. discriminate.
  Qed.

  Lemma tailp_cons_args : forall b r, tailp (b :: r) = TComma :: pr_args (b :: r).
  Proof. intros b r. rewrite pr_args_cons. reflexivity. Qed.

  Lemma list_loop_step : forall n els tok r,
    (match tok with TRBracket => False | _ => True end) ->
    list_loop ex (S n) els (tok :: r) =
    bind (ex (skip_empty_lines (tok :: r))) (fun e rest =>
      match skip_empty_lines rest with
      | TComma :: r' => list_loop ex n (els ++ [e]) (skip_empty_lines r')
      | TRBracket :: r' => list_loop ex n (els ++ [e]) (skip_empty_lines (TRBracket :: r'))
      | _ => Err ExpectedCommaOrRightBracketInList
      end).
  Proof. intros n els tok r H. destruct tok; try reflexivity. contradiction. Qed.

  Lemma list_loop_sound : forall n tels ts e rest,
    core ts = true -> forallb wf tels = true ->
    list_loop ex n (map desugar tels) ts = Ok e rest ->
    exists more, forallb wf more = true /\ e = EList (map desugar (tels ++ more))
                 /\ ts = pr_args more ++ TRBracket :: rest.
  Proof.
    induction n; intros tels ts e rest C W H; [discriminate|].
    destruct ts as [|tok r]; [simpl in H|].
    - (* the element parser on the empty list *)
      apply bind_ok in H. destruct H as (e1 & r1 & E & _).
      destruct (Hex [] e1 r1 eq_refl E) as (t & Wt & _ & Et).
      destruct (pr_first t Wt) as (tk & rt & Ep & _). rewrite Ep in Et. discriminate.
    - assert (Step : (match tok with TRBracket => False | _ => True end) ->
        exists more, forallb wf more = true /\ e = EList (map desugar (tels ++ more))
                     /\ tok :: r = pr_args more ++ TRBracket :: rest).
      { intros Htok. rewrite list_loop_step in H by exact Htok. rewrite (core_skip _ C) in H.
        apply bind_ok in H. destruct H as (e1 & r1 & E & H).
        destruct (Hex _ e1 r1 C E) as (t & Wt & Dt & Et).
        assert (Cr1 : core r1 = true) by (apply (core_app_r (pr t)); rewrite <- Et; exact C).
        rewrite (core_skip r1 Cr1) in H.
        assert (W' : forallb wf (tels ++ [t]) = true) by (rewrite forallb_app, W; simpl; rewrite Wt; reflexivity).
        destruct r1 as [|t1 r1']; [discriminate|].
        destruct t1; try discriminate.
        - (* TRBracket *)
          assert (H' : list_loop ex n (map desugar (tels ++ [t])) (TRBracket :: r1') = Ok e rest).
          { rewrite map_app. simpl. rewrite Dt. exact H. }
          destruct (IHn (tels ++ [t]) _ e rest Cr1 W' H') as (more & Wm & Em & Tm).
          assert (more = []) by (eapply pr_args_head; [exact Wm|symmetry; exact Tm]). subst more.
          simpl in Tm. inversion Tm; subst. exists [t]. conj.
          + simpl. rewrite Wt. reflexivity.
          + rewrite app_nil_r. reflexivity.
          + rewrite Et. simpl. rewrite app_nil_r. reflexivity.
        - (* TComma *)
          assert (Cr1' : core r1' = true) by (eapply core_tail; eauto).
          rewrite (core_skip r1' Cr1') in H.
          assert (H' : list_loop ex n (map desugar (tels ++ [t])) r1' = Ok e rest).
          { rewrite map_app. simpl. rewrite Dt. exact H. }
          destruct (IHn (tels ++ [t]) r1' e rest Cr1' W' H') as (more & Wm & Em & Tm).
          destruct more as [|b more'].
          + simpl in Tm. subst r1'. exfalso. eapply core_notrail_b. exact Cr1.
          + exists (t :: b :: more'). conj.
            * simpl. rewrite Wt. simpl in Wm. rewrite Wm. reflexivity.
            * rewrite Em. rewrite <- app_assoc. reflexivity.
            * rewrite Et, Tm. rewrite (pr_args_cons t (b :: more')), tailp_cons_args.
              rewrite <- !app_assoc. reflexivity. }
      destruct tok; try (apply Step; exact I).
      simpl in H. inversion H; subst. exists []. rewrite app_nil_r. conj; reflexivity.
  Qed.

  Lemma pr_fields_head : forall more X Y, pr_fields more ++ X = TRCurly :: Y -> more = [].
  Proof. intros [|[f a] r] X Y H; [reflexivity|]. simpl in H. discriminate. Qed.

  Lemma struct_loop_sound : forall n name tfs ts e rest,
    core ts = true -> forallb (fun fe => wf (snd fe)) tfs = true ->
    struct_loop ex n name (map (fun fe => (fst fe, desugar (snd fe))) tfs) ts = Ok e rest ->
    exists more, forallb (fun fe => wf (snd fe)) more = true
                 /\ e = EStruct name (map (fun fe => (fst fe, desugar (snd fe))) (tfs ++ more))
                 /\ ts = pr_fields more ++ TRCurly :: rest.
  Proof.
    induction n; intros name tfs ts e rest C W H; [discriminate|].
    destruct ts as [|tok r]; [simpl in H; discriminate|].
    destruct tok; try (simpl in H; discriminate).
    - (* TRCurly *) simpl in H. inversion H; subst. exists []. rewrite app_nil_r. conj; reflexivity.
    - (* TIdent *)
      simpl in H. assert (Cr : core r = true) by (eapply core_tail; eauto).
      rewrite (core_skip r Cr) in H.
      destruct r as [|t2 r2]; [discriminate|]. destruct t2; try discriminate.
      assert (Cr2 : core r2 = true) by (eapply core_tail; eauto).
      rewrite (core_skip r2 Cr2) in H.
      apply bind_ok in H. destruct H as (e1 & r3 & E & H).
      destruct (Hex r2 e1 r3 Cr2 E) as (t & Wt & Dt & Et).
      assert (Cr3 : core r3 = true) by (apply (core_app_r (pr t)); rewrite <- Et; exact Cr2).
      rewrite (core_skip r3 Cr3) in H.
      assert (W' : forallb (fun fe => wf (snd fe)) (tfs ++ [(name0, t)]) = true)
        by (rewrite forallb_app, W; simpl; rewrite Wt; reflexivity).
      destruct r3 as [|t3 r3']; [discriminate|]. destruct t3; try discriminate.
      + (* TRCurly *)
        assert (H' : struct_loop ex n name (map (fun fe => (fst fe, desugar (snd fe))) (tfs ++ [(name0, t)]))
                       (TRCurly :: r3') = Ok e rest).
        { rewrite map_app. simpl. rewrite Dt. exact H. }
        destruct (IHn name _ _ e rest Cr3 W' H') as (more & Wm & Em & Tm).
        assert (more = []) by (eapply pr_fields_head; symmetry; exact Tm). subst more.
        simpl in Tm. inversion Tm; subst. exists [(name0, t)]. conj.
        * simpl. rewrite Wt. reflexivity.
        * rewrite app_nil_r. reflexivity.
        * simpl. rewrite app_nil_r. reflexivity.
      + (* TComma *)
        assert (Cr3' : core r3' = true) by (eapply core_tail; eauto).
        rewrite (core_skip r3' Cr3') in H.
        assert (H' : struct_loop ex n name (map (fun fe => (fst fe, desugar (snd fe))) (tfs ++ [(name0, t)]))
                       r3' = Ok e rest).
        { rewrite map_app. simpl. rewrite Dt. exact H. }
        destruct (IHn name _ r3' e rest Cr3' W' H') as (more & Wm & Em & Tm).
        destruct more as [|[g b] more'].
        * simpl in Tm. subst r3'. exfalso. eapply core_notrail_c. exact Cr3.
        * exists ((name0, t) :: (g, b) :: more'). conj.
          -- simpl. rewrite Wt. simpl in Wm. rewrite Wm. reflexivity.
          -- rewrite Em. rewrite <- app_assoc. reflexivity.
          -- rewrite Et, Tm.
             change (pr_fields ((name0, t) :: (g, b) :: more'))
               with (TIdent name0 :: TColon :: pr t ++ TComma :: pr_fields ((g, b) :: more')).
             cbn [app]. rewrite <- app_assoc. reflexivity.
  Qed.

  (* interpolated strings *)
  Lemma interpolation_sound : forall ts ps rest, core ts = true -> interpolation ex ts = Ok ps rest ->
    exists a f, wf a = true /\ ps = [PExpr (desugar a) f] /\ ts = pr a ++ pr_spec f ++ rest.
  Proof.
    intros ts ps rest C H. unfold interpolation in H.
    destruct (starts_no_expression ts); [discriminate|].
    apply bind_ok in H. destruct H as (e1 & r1 & E & H).
    destruct (Hex ts e1 r1 C E) as (t & Wt & Dt & Et).
    destruct r1 as [|t1 r1'].
    - inversion H; subst. exists t, None. conj; auto.
    - destruct t1; try (inversion H; subst; exists t, None; conj; auto; fail).
      inversion H; subst. exists t, (Some lexeme). conj; auto.
  Qed.

  Lemma interp_loop_sound : forall n acc ts e rest, core ts = true ->
    interp_loop ex n acc ts = Ok e rest ->
    exists lx r, forallb (fun it : sx * option str * str => wf (fst (fst it))) r = true
      /\ e = EInterp (filter nonempty_part (acc ++ PFixed (strip_and_escape lx) :: iparts r))
      /\ ts = pr_isep lx r ++ rest.
  Proof.
    induction n; intros acc ts e rest C H; [discriminate|].
    destruct ts as [|tok r0]; [simpl in H; discriminate|].
    destruct tok; try (simpl in H; discriminate).
    - (* TInterpMiddle *)
      simpl in H. apply bind_ok in H. destruct H as (ps & r1 & E & H).
      assert (Cr0 : core r0 = true) by (eapply core_tail; eauto).
      destruct (interpolation_sound r0 ps r1 Cr0 E) as (a & f & Wa & -> & Et).
      assert (Cr1 : core r1 = true).
      { apply (core_app_r (pr a ++ pr_spec f)). rewrite <- app_assoc. rewrite <- Et. exact Cr0. }
      destruct (IHn _ r1 e rest Cr1 H) as (lx' & r' & Wr & Ee & Tr).
      exists lexeme, ((a, f, lx') :: r'). conj.
      + cbn [forallb fst]. rewrite Wa, Wr. reflexivity.
      + rewrite Ee. unfold iparts. cbn [flat_map fst snd]. rewrite <- app_assoc. reflexivity.
      + rewrite Et, Tr. cbn [pr_isep pr_items app]. rewrite <- !app_assoc.
        destruct r'; reflexivity.
    - (* TInterpEnd *)
      simpl in H. inversion H; subst. exists lexeme, []. conj; reflexivity.
  Qed.

  Opaque list_loop struct_loop interp_loop.
  Lemma primary_sound : forall ts e rest, core ts = true -> primary ex ts = Ok e rest ->
    exists t, wf t = true /\ 16 <= lvl t /\ desugar t = e /\ ts = pr t ++ rest.
  Proof.
    intros ts e rest C H. destruct ts as [|tok r]; [discriminate|].
    pose proof (core_head _ _ C) as Ch.
    destruct tok; simpl in H; try discriminate.
    - (* TLParen *)
      apply bind_ok in H. destruct H as (inner & r1 & E & H).
      destruct (Hex r inner r1 (core_tail _ _ C) E) as (t & Wt & Dt & Et).
      destruct r1 as [|t2 r2]; [discriminate|]. destruct t2; try discriminate. inversion H; subst.
      exists (SParen t). repeat split; auto. simpl. rewrite <- app_assoc. reflexivity.
    - (* TLBracket *)
      assert (Cr : core r = true) by (eapply core_tail; eauto).
      rewrite (core_skip r Cr) in H.
      destruct (list_loop_sound _ [] r e rest Cr eq_refl H) as (more & Wm & Em & Tm).
      exists (SList more). conj; [exact Wm|simpl; lia|rewrite Em; reflexivity|].
      rewrite pr_list. cbn [app]. rewrite <- app_assoc. cbn [app]. rewrite <- Tm. reflexivity.
    - inversion H; subst. exists SHole. repeat split; auto.
    - inversion H; subst. exists (SBool true). repeat split; auto.
    - inversion H; subst. exists (SBool false). repeat split; auto.
    - inversion H; subst. exists SNaN. repeat split; auto.
    - inversion H; subst. exists SInf. repeat split; auto.
    - destruct k; discriminate.
    - inversion H; subst. exists (SNum lexeme). repeat split; auto.
    - destruct (i128_overflow (radix_value base (tl (tl lexeme)))) eqn:O; [discriminate|].
      inversion H; subst. exists (SBased base lexeme). repeat split; auto. simpl. rewrite O. reflexivity.
    - destruct r as [|t2 r2].
      + inversion H; subst. exists (SIdent name). repeat split; auto.
      + destruct t2; try (inversion H; subst; exists (SIdent name); repeat split; auto; fail).
        assert (Cr2 : core r2 = true) by (eapply core_tail; eapply core_tail; eauto).
        rewrite (core_skip r2 Cr2) in H.
        destruct (struct_loop_sound _ name [] r2 e rest Cr2 eq_refl H) as (more & Wm & Em & Tm).
        exists (SStruct name more). conj; [exact Wm|simpl; lia|rewrite Em; reflexivity|].
        rewrite pr_struct. cbn [app]. rewrite <- app_assoc. cbn [app]. rewrite <- Tm. reflexivity.
    - inversion H; subst. exists (SStr lexeme). repeat split; auto.
    - (* TInterpStart *)
      apply bind_ok in H. destruct H as (ps & r1 & E & H).
      assert (Cr : core r = true) by (eapply core_tail; eauto).
      destruct (interpolation_sound r ps r1 Cr E) as (a & f & Wa & -> & Et).
      assert (Cr1 : core r1 = true).
      { apply (core_app_r (pr a ++ pr_spec f)). rewrite <- app_assoc. rewrite <- Et. exact Cr. }
      destruct (interp_loop_sound _ _ r1 e rest Cr1 H) as (lx & r' & Wr & Ee & Tr).
      exists (SInterp lexeme ((a, f, lx) :: r')). conj.
      + cbn [wf forallb fst]. rewrite Wa, Wr. reflexivity.
      + simpl; lia.
      + rewrite Ee. reflexivity.
      + rewrite pr_interp. cbn [pr_items app]. rewrite Et, Tr. rewrite <- !app_assoc. destruct r'; reflexivity.
  Qed.

  Transparent list_loop struct_loop.

  (* loops: `ta` is the tree read so far *)
  Lemma call_loop_sound : forall n ta ts e rest,
    core ts = true -> wf ta = true -> 15 <= lvl ta ->
    call_loop ex n (desugar ta) ts = Ok e rest ->
    exists t, wf t = true /\ 15 <= lvl t /\ desugar t = e /\ pr ta ++ ts = pr t ++ rest /\ cpost t rest.
  Proof.
    induction n; intros ta ts e rest C W Lv H; [discriminate|]. simpl in H.
    assert (Exit : forall tok r, ts = tok :: r -> callcont tok = false -> Ok (desugar ta) ts = Ok e rest ->
              exists t, wf t = true /\ 15 <= lvl t /\ desugar t = e /\ pr ta ++ ts = pr t ++ rest /\ cpost t rest).
    { intros tok r -> Cc E. inversion E; subst. exists ta. conj; auto. intros _. exact Cc. }
    destruct ts as [|tok r].
    - inversion H; subst. exists ta. conj; auto. intros _. exact I.
    - destruct tok; try (eapply Exit; [reflexivity|reflexivity|exact H]).
      + (* TLParen *)
        apply bind_ok in H. destruct H as (args & r1 & E & H).
        destruct (arguments_sound r args r1 (core_tail _ _ C) E) as (targs & Wa & Da & Ea).
        assert (Cr1 : core r1 = true).
        { apply (core_app_r (pr_args targs ++ [TRParen])). rewrite <- app_assoc. simpl. rewrite <- Ea.
          eapply core_tail; eauto. }
        destruct (IHn (SCall ta targs) r1 e rest Cr1) as (t & Wt & Lt & Dt & Et & CPt).
        * simpl. rewrite W, Wa. simpl. rewrite andb_true_r. apply Nat.leb_le. exact Lv.
        * simpl. lia.
        * simpl. rewrite <- Da. exact H.
        * exists t. conj; auto. rewrite <- Et. rewrite pr_call, Ea.
          rewrite <- !app_assoc. simpl. rewrite <- !app_assoc. reflexivity.
      + (* TPeriod *)
        destruct r as [|t2 r2]; [discriminate|]. destruct t2; try discriminate.
        assert (Cr2 : core r2 = true) by (eapply core_tail; eapply core_tail; eauto).
        destruct (IHn (SField ta name) r2 e rest Cr2) as (t & Wt & Lt & Dt & Et & CPt).
        * simpl. rewrite W. apply Nat.leb_le. exact Lv.
        * simpl. lia.
        * exact H.
        * exists t. conj; auto. rewrite <- Et. simpl. rewrite <- app_assoc. reflexivity.
  Qed.

  Lemma call_sound : forall ts e rest, core ts = true -> call ex ts = Ok e rest ->
    exists t, wf t = true /\ 15 <= lvl t /\ desugar t = e /\ ts = pr t ++ rest /\ cpost t rest.
  Proof.
    intros ts e rest C H. unfold call in H. apply bind_ok in H. destruct H as (e1 & r1 & E & H).
    destruct (primary_sound ts e1 r1 C E) as (ta & Wa & La & Da & Ea). subst e1.
    assert (Cr1 : core r1 = true) by (apply (core_app_r (pr ta)); rewrite <- Ea; exact C).
    destruct (call_loop_sound _ ta r1 e rest Cr1 Wa ltac:(lia) H) as (t & Wt & Lt & Dt & Et & CPt).
    exists t. conj; auto. rewrite Ea. exact Et.
  Qed.

  Definition SoundAt (p : parser) (k : nat) : Prop :=
    forall ts e rest, core ts = true -> p ts = Ok e rest ->
    exists t, wf t = true /\ k <= lvl t /\ desugar t = e /\ ts = pr t ++ rest /\ cpost t rest.

  Lemma SoundAt_weaken : forall p k j, SoundAt p k -> j <= k -> SoundAt p j.
  Proof.
    intros p k j H Hj ts e rest C E. destruct (H ts e rest C E) as (t & W & Lv & D & Et & CP).
    exists t. conj; auto. lia.
  Qed.

  Lemma unicode_power_sound : SoundAt (unicode_power ex) 14.
  Proof.
    intros ts e rest C H. unfold unicode_power in H. apply bind_ok in H. destruct H as (e1 & r1 & E & H).
    destruct (call_sound ts e1 r1 C E) as (ta & Wa & La & Da & Ea & CPa).
    assert (Plain : Ok e1 r1 = Ok e rest ->
      exists t, wf t = true /\ 14 <= lvl t /\ desugar t = e /\ ts = pr t ++ rest /\ cpost t rest).
    { intros E'. inversion E'; subst. exists ta. conj; auto. lia. }
    destruct r1 as [|tok r]; [apply Plain; exact H|].
    destruct tok; try (apply Plain; exact H).
    inversion H; subst. exists (SUPow ta lexeme). conj.
    - simpl. rewrite Wa. apply Nat.leb_le. exact La.
    - simpl. lia.
    - reflexivity.
    - simpl. rewrite <- app_assoc. reflexivity.
    - intros X. discriminate.
  Qed.

  Lemma factorial_sound : SoundAt (factorial ex) 13.
  Proof.
    intros ts e rest C H. unfold factorial in H. apply bind_ok in H. destruct H as (e1 & r1 & E & H).
    destruct (unicode_power_sound ts e1 r1 C E) as (ta & Wa & La & Da & Ea & CPa).
    destruct (count_excl r1) as [k r] eqn:CE. destruct (count_excl_spec r1 k r CE) as [S1 S2].
    destruct k.
    - inversion H; subst. exists ta. conj; auto. lia.
    - inversion H; subst. exists (SFact ta k). conj.
      + simpl. rewrite Wa. apply Nat.leb_le. exact La.
      + simpl. lia.
      + reflexivity.
      + simpl pr. rewrite <- app_assoc. reflexivity.
      + intros X. discriminate.
  Qed.

  Lemma power_n_sound : forall n, SoundAt (power_n ex n) 12.
  Proof.
    induction n; intros ts e rest C H; [discriminate|]. simpl in H.
    apply bind_ok in H. destruct H as (e1 & r1 & E & H).
    destruct (factorial_sound ts e1 r1 C E) as (ta & Wa & La & Da & Ea & CPa).
    assert (Cr1 : core r1 = true) by (apply (core_app_r (pr ta)); rewrite <- Ea; exact C).
    assert (Plain : Ok e1 r1 = Ok e rest ->
      exists t, wf t = true /\ 12 <= lvl t /\ desugar t = e /\ ts = pr t ++ rest /\ cpost t rest).
    { intros E'. inversion E'; subst. exists ta. conj; auto. lia. }
    destruct r1 as [|tok r]; [apply Plain; exact H|].
    destruct tok; try (apply Plain; exact H).
    assert (NoNeg : bind (power_n ex n r) (fun rhs rest' => Ok (EBin Power e1 rhs) rest') = Ok e rest ->
      exists t, wf t = true /\ 12 <= lvl t /\ desugar t = e /\ ts = pr t ++ rest /\ cpost t rest).
    { intros H'. apply bind_ok in H'. destruct H' as (rhs & r2 & E2 & H').
      destruct (IHn r rhs r2 (core_tail _ _ Cr1) E2) as (tb & Wb & Lb & Db & Eb & CPb).
      inversion H'; subst. exists (SPow ta false tb). conj.
      - simpl. rewrite Wa, Wb. simpl. apply andb_true_intro. split; apply Nat.leb_le; assumption.
      - simpl. lia.
      - reflexivity.
      - simpl. rewrite <- app_assoc. simpl. reflexivity.
      - eapply cpost_same; [|exact CPb]. reflexivity. }
    destruct r as [|t2 r2]; [apply NoNeg; exact H|].
    destruct t2; try (apply NoNeg; exact H).
    apply bind_ok in H. destruct H as (rhs & r3 & E2 & H).
    assert (Cr2 : core r2 = true) by (eapply core_tail; eapply core_tail; eauto).
    destruct (IHn r2 rhs r3 Cr2 E2) as (tb & Wb & Lb & Db & Eb & CPb).
    inversion H; subst. exists (SPow ta true tb). conj.
    - simpl. rewrite Wa, Wb. simpl. apply andb_true_intro. split; apply Nat.leb_le; assumption.
    - simpl. lia.
    - reflexivity.
    - simpl. rewrite <- app_assoc. simpl. reflexivity.
    - eapply cpost_same; [|exact CPb]. reflexivity.
  Qed.

  Lemma power_sound : SoundAt (power ex) 12.
  Proof. intros ts e rest C H. unfold power in H. eapply power_n_sound; eauto. Qed.

  Lemma pr_first_app : forall t rest, wf t = true -> exists tok r, pr t ++ rest = tok :: r ++ rest /\ pr t = tok :: r.
  Proof.
    intros t rest W. destruct (pr_first t W) as (tok & r & E & _). exists tok, r. rewrite E. split; reflexivity.
  Qed.

  Lemma ifactor_loop_sound : forall n ta ts e rest,
    core ts = true -> wf ta = true -> 11 <= lvl ta -> cpost ta ts ->
    ifactor_loop ex n (desugar ta) ts = Ok e rest ->
    exists t, wf t = true /\ 11 <= lvl t /\ desugar t = e /\ pr ta ++ ts = pr t ++ rest /\ cpost t rest.
  Proof.
    induction n; intros ta ts e rest C W Lv CP H; [discriminate|]. simpl in H.
    destruct (could_start_power ts) eqn:CS.
    - apply bind_ok in H. destruct H as (rhs & r1 & E & H).
      destruct (power_sound ts rhs r1 C E) as (tb & Wb & Lb & Db & Eb & CPb).
      assert (Cr1 : core r1 = true) by (apply (core_app_r (pr tb)); rewrite <- Eb; exact C).
      destruct (pr_first tb Wb) as (tok & rb & Etb & _ & _).
      assert (Wn : wf (SIMul ta tb) = true).
      { simpl. rewrite W, Wb. simpl.
        assert (E1 : (11 <=? lvl ta) = true) by (apply Nat.leb_le; exact Lv).
        assert (E2 : (12 <=? lvl tb) = true) by (apply Nat.leb_le; exact Lb).
        rewrite E1, E2. simpl.
        rewrite Eb, Etb in CS. simpl in CS. rewrite Etb.
        assert (CS' : could_start_power (tok :: rb) = true) by (destruct tok; try discriminate; reflexivity).
        rewrite CS'. simpl. apply negb_true_iff.
        destruct tok; try reflexivity. simpl.
        destruct (ends_call ta) eqn:EC; [|reflexivity].
        specialize (CP EC). rewrite Eb, Etb in CP. simpl in CP. discriminate. }
      destruct (IHn (SIMul ta tb) r1 e rest Cr1 Wn) as (t & Wt & Lt & Dt & Et & CPt).
      + simpl. lia.
      + eapply cpost_same; [|exact CPb]. reflexivity.
      + simpl. rewrite Db. exact H.
      + exists t. conj; auto. rewrite <- Et. simpl. rewrite <- app_assoc. rewrite Eb. reflexivity.
    - inversion H; subst. exists ta. conj; auto.
  Qed.

  Lemma ifactor_sound : SoundAt (ifactor ex) 11.
  Proof.
    intros ts e rest C H. unfold ifactor in H. apply bind_ok in H. destruct H as (e1 & r1 & E & H).
    destruct (power_sound ts e1 r1 C E) as (ta & Wa & La & Da & Ea & CPa). subst e1.
    assert (Cr1 : core r1 = true) by (apply (core_app_r (pr ta)); rewrite <- Ea; exact C).
    destruct (ifactor_loop_sound _ ta r1 e rest Cr1 Wa ltac:(lia) CPa H) as (t & Wt & Lt & Dt & Et & CPt).
    exists t. conj; auto. rewrite Ea. exact Et.
  Qed.

  Lemma unary_n_sound : forall n, SoundAt (unary_n ex n) 10.
  Proof.
    induction n; intros ts e rest C H; [discriminate|]. simpl in H.
    assert (Plain : ifactor ex ts = Ok e rest ->
      exists t, wf t = true /\ 10 <= lvl t /\ desugar t = e /\ ts = pr t ++ rest /\ cpost t rest).
    { intros H'. eapply SoundAt_weaken; [apply ifactor_sound| |exact C|exact H']. lia. }
    destruct ts as [|tok r]; [apply Plain; exact H|].
    destruct tok; try (apply Plain; exact H).
    - (* TPlus *)
      destruct (IHn r e rest (core_tail _ _ C) H) as (t & Wt & Lt & Dt & Et & CPt).
      exists (SPos t). conj;
        [simpl; rewrite Wt; apply Nat.leb_le; exact Lt | simpl; lia | exact Dt
        | simpl; rewrite Et; reflexivity | exact CPt].
    - (* TMinus *)
      apply bind_ok in H. destruct H as (rhs & r1 & E & H). inversion H; subst.
      destruct (IHn r rhs rest (core_tail _ _ C) E) as (t & Wt & Lt & Dt & Et & CPt).
      exists (SNeg t). conj;
        [simpl; rewrite Wt; apply Nat.leb_le; exact Lt | simpl; lia | simpl; rewrite Dt; reflexivity
        | simpl; rewrite Et; reflexivity | exact CPt].
  Qed.

  Lemma unary_sound : SoundAt (unary ex) 10.
  Proof. intros ts e rest C H. unfold unary in H. eapply unary_n_sound; eauto. Qed.

  Lemma SoundAt_binop : forall ops next k,
    k <= 14 ->
    (forall tok op, ops tok = Some op -> binlevel tok = Some k /\ binop_of tok = op) ->
    SoundAt next (S k) -> SoundAt (parse_binop ops next) k.
  Proof.
    intros ops next k Hk Hops Hn ts e rest C H.
    eapply parse_binop_sound; eauto.
  Qed.

  Lemma comparison_sound : SoundAt (comparison ex) 6.
  Proof.
    unfold comparison, term, factor, per_factor.
    apply SoundAt_binop; [lia|exact ops_comparison_spec|].
    apply SoundAt_binop; [lia|exact ops_term_spec|].
    apply SoundAt_binop; [lia|exact ops_factor_spec|].
    apply SoundAt_binop; [lia|exact ops_per_spec|].
    exact unary_sound.
  Qed.

  Lemma logical_neg_n_sound : forall n, SoundAt (logical_neg_n ex n) 5.
  Proof.
    induction n; intros ts e rest C H; [discriminate|]. simpl in H.
    assert (Plain : comparison ex ts = Ok e rest ->
      exists t, wf t = true /\ 5 <= lvl t /\ desugar t = e /\ ts = pr t ++ rest /\ cpost t rest).
    { intros H'. eapply SoundAt_weaken; [apply comparison_sound| |exact C|exact H']. lia. }
    destruct ts as [|tok r]; [apply Plain; exact H|].
    destruct tok; try (apply Plain; exact H).
    apply bind_ok in H. destruct H as (rhs & r1 & E & H). inversion H; subst.
    destruct (IHn r rhs rest (core_tail _ _ C) E) as (t & Wt & Lt & Dt & Et & CPt).
    exists (SNot t). conj;
      [simpl; rewrite Wt; apply Nat.leb_le; exact Lt | simpl; lia | simpl; rewrite Dt; reflexivity
      | simpl; rewrite Et; reflexivity | exact CPt].
  Qed.

  Lemma conversion_sound : SoundAt (conversion ex) 2.
  Proof.
    unfold conversion, logical_or, logical_and.
    apply SoundAt_binop; [lia|exact ops_conversion_spec|].
    apply SoundAt_binop; [lia|exact ops_or_spec|].
    eapply SoundAt_weaken; [|apply Nat.le_refl].
    apply SoundAt_binop; [lia|exact ops_and_spec|].
    intros ts e rest C H. unfold logical_neg in H. eapply logical_neg_n_sound; eauto.
  Qed.

  Lemma condition_n_sound : forall n, SoundAt (condition_n ex n) 1.
  Proof.
    induction n; intros ts e rest C H; [discriminate|]. simpl in H.
    assert (Plain : conversion ex ts = Ok e rest ->
      exists t, wf t = true /\ 1 <= lvl t /\ desugar t = e /\ ts = pr t ++ rest /\ cpost t rest).
    { intros H'. eapply SoundAt_weaken; [apply conversion_sound| |exact C|exact H']. lia. }
    destruct ts as [|tok r]; [apply Plain; exact H|].
    destruct tok; try (apply Plain; exact H).
    apply bind_ok in H. destruct H as (c & r1 & E & H).
    destruct (conversion_sound r c r1 (core_tail _ _ C) E) as (tc & Wc & Lc & Dc & Ec & CPc).
    assert (Cr1 : core r1 = true) by (apply (core_app_r (pr tc)); rewrite <- Ec; eapply core_tail; eauto).
    rewrite (core_skip r1 Cr1) in H.
    destruct r1 as [|t1 r1']; [discriminate|]. destruct t1; try discriminate.
    assert (Cr1' : core r1' = true) by (eapply core_tail; eauto).
    rewrite (core_skip r1' Cr1') in H.
    apply bind_ok in H. destruct H as (t & r2 & E2 & H).
    destruct (IHn r1' t r2 Cr1' E2) as (tt & Wt & Lt & Dt & Et & CPt).
    assert (Cr2 : core r2 = true) by (apply (core_app_r (pr tt)); rewrite <- Et; exact Cr1').
    rewrite (core_skip r2 Cr2) in H.
    destruct r2 as [|t2 r2']; [discriminate|]. destruct t2; try discriminate.
    assert (Cr2' : core r2' = true) by (eapply core_tail; eauto).
    rewrite (core_skip r2' Cr2') in H.
    apply bind_ok in H. destruct H as (f & r3 & E3 & H). inversion H; subst.
    destruct (IHn r2' f rest Cr2' E3) as (te & We & Le & De & Ee & CPe).
    exists (SIf tc tt te). conj.
    - simpl. rewrite Wc, Wt, We. simpl.
      repeat (apply andb_true_intro; split); apply Nat.leb_le; assumption.
    - simpl. lia.
    - simpl. congruence.
    - simpl. rewrite <- app_assoc. simpl. rewrite <- app_assoc. simpl. rewrite Ee. reflexivity.
    - eapply cpost_same; [|exact CPe]. reflexivity.
  Qed.

  Lemma condition_sound : SoundAt (condition ex) 1.
  Proof. intros ts e rest C H. unfold condition in H. eapply condition_n_sound; eauto. Qed.

  Lemma postfix_loop_sound : forall n ta ts e rest,
    core ts = true -> wf ta = true -> cpost ta ts ->
    postfix_loop ex n (desugar ta) ts = Ok e rest ->
    exists t, wf t = true /\ desugar t = e /\ pr ta ++ ts = pr t ++ rest /\ cpost t rest.
  Proof.
    induction n; intros ta ts e rest C W CP H; [discriminate|]. simpl in H.
    assert (Exit : Ok (desugar ta) ts = Ok e rest ->
      exists t, wf t = true /\ desugar t = e /\ pr ta ++ ts = pr t ++ rest /\ cpost t rest).
    { intros E. inversion E; subst. exists ta. conj; auto. }
    destruct ts as [|tok r]; [apply Exit; exact H|].
    destruct tok; try (apply Exit; exact H).
    assert (Cr : core r = true) by (eapply core_tail; eauto).
    rewrite (core_skip r Cr) in H.
    apply bind_ok in H. destruct H as (f & r1 & E & H).
    destruct (call_sound r f r1 Cr E) as (tf & Wf & Lf & Df & Ef & CPf).
    assert (Cr1 : core r1 = true) by (apply (core_app_r (pr tf)); rewrite <- Ef; exact Cr).
    assert (Step : forall acc', ident_or_call f = true ->
              desugar (SApply ta tf) = acc' -> postfix_loop ex n acc' r1 = Ok e rest ->
              exists t, wf t = true /\ desugar t = e /\ pr ta ++ TPostfixApply :: r = pr t ++ rest /\ cpost t rest).
    { intros acc' Hic Dacc H'. subst acc'.
      destruct (IHn (SApply ta tf) r1 e rest Cr1) as (t & Wt & Dt & Et & CPt).
      - simpl. rewrite W, Wf, Df, Hic. simpl. rewrite andb_true_r. apply Nat.leb_le. exact Lf.
      - intros _. destruct r1 as [|t1 r1']; [exact I|].
        apply CPf. apply lvl15_ends_call. exact Lf.
      - exact H'.
      - exists t. conj; auto. rewrite <- Et. simpl. rewrite <- app_assoc. simpl. rewrite Ef. reflexivity. }
    destruct f; try discriminate.
    - eapply Step; [reflexivity| |exact H]. simpl. rewrite Df. reflexivity.
    - eapply Step; [reflexivity| |exact H]. simpl. rewrite Df. reflexivity.
  Qed.

  Lemma postfix_apply_sound : forall ts e rest, core ts = true -> postfix_apply ex ts = Ok e rest ->
    exists t, wf t = true /\ desugar t = e /\ ts = pr t ++ rest /\ cpost t rest.
  Proof.
    intros ts e rest C H. unfold postfix_apply in H. apply bind_ok in H. destruct H as (e1 & r1 & E & H).
    destruct (condition_sound ts e1 r1 C E) as (ta & Wa & La & Da & Ea & CPa). subst e1.
    assert (Cr1 : core r1 = true) by (apply (core_app_r (pr ta)); rewrite <- Ea; exact C).
    destruct (postfix_loop_sound _ ta r1 e rest Cr1 Wa CPa H) as (t & Wt & Dt & Et & CPt).
    exists t. conj; auto. rewrite Ea. exact Et.
  Qed.
End Levels.

(* ---- the knot and the statement level *)
Lemma expression_d_sound : forall d ts e rest, core ts = true -> expression_d d ts = Ok e rest ->
  exists t, wf t = true /\ desugar t = e /\ ts = pr t ++ rest.
Proof.
  induction d; intros ts e rest C H; [discriminate|]. cbn [expression_d] in H.
  destruct (postfix_apply_sound (expression_d d) IHd ts e rest C H) as (t & W & D & E & _).
  exists t. conj; auto.
Qed.

Theorem expression_sound : forall ts e rest, core ts = true -> expression ts = Ok e rest ->
  exists t, wf t = true /\ desugar t = e /\ ts = pr t ++ rest.
Proof. intros ts e rest C H. unfold expression in H. eapply expression_d_sound; eauto. Qed.

Definition no_separator (ts : list token) : bool :=
  forallb (fun t => match t with TSemicolon => false | _ => true end) ts.

(* statements of the proved fragment: expressions, `let name = e`, procedure calls (the other
   statement forms are in the parser model and in C10_roundtrip_full, not in this inversion) *)
Definition simple_start (ts : list token) : bool :=
  match ts with
  | TKw KLet :: TIdent _ :: TEqual :: _ => true
  | TKw KLet :: _ => false
  | TKw KFn :: _ | TKw KDimension :: _ | TAt :: _ | TKw KUnit :: _ | TKw KUse :: _ | TKw KStruct :: _ => false
  | _ => true
  end.

Lemma statement_sound : forall ts st rest, core ts = true -> simple_start ts = true ->
  statement ts = Ok st rest ->
  exists s, wf_stmt s = true /\ desugar_stmt s = st /\ ts = pr_stmt s ++ rest.
Proof.
  intros ts st rest C SS H.
  assert (Generic : bind (expression ts) (fun e rest => Ok (StExpr e) rest) = Ok st rest ->
    exists s, wf_stmt s = true /\ desugar_stmt s = st /\ ts = pr_stmt s ++ rest).
  { intros H'. apply bind_ok in H'. destruct H' as (e & r1 & E & H'). inversion H'; subst.
    destruct (expression_sound ts e rest C E) as (t & W & D & Et).
    exists (SSExpr t). conj; auto. simpl. rewrite D. reflexivity. }
  assert (Proc : forall k r, is_procedure k = true -> core (TKw k :: r) = true ->
            parse_procedure k r = Ok st rest ->
            exists s, wf_stmt s = true /\ desugar_stmt s = st /\ TKw k :: r = pr_stmt s ++ rest).
  { intros k r Hk Ck Hp. unfold parse_procedure in Hp.
    destruct r as [|t1 r1]; [discriminate|]. destruct t1; try discriminate.
    apply bind_ok in Hp. destruct Hp as (args & r2 & E & Hp). inversion Hp; subst.
    assert (Cr1 : core r1 = true) by (eapply core_tail; eapply core_tail; eauto).
    destruct (arguments_sound _ (expression_d_sound (S (length r1))) r1 args rest Cr1 E) as (targs & Wa & Da & Ea).
    exists (SSProc k targs). conj.
    - simpl. rewrite Hk. exact Wa.
    - simpl. rewrite Da. reflexivity.
    - simpl. rewrite Ea. rewrite <- app_assoc. reflexivity. }
  destruct ts as [|tok r]; [apply Generic; exact H|].
  destruct tok; try (apply Generic; exact H); try discriminate.
  destruct k; try (apply Generic; exact H); try discriminate;
    try (rewrite statement_procedure in H by reflexivity; eapply Proc; [reflexivity|exact C|exact H]).
  (* let *)
  destruct r as [|t1 r1]; [discriminate|]. destruct t1; try discriminate.
  destruct r1 as [|t2 r2]; [discriminate|]. destruct t2; try discriminate.
  rewrite statement_let_plain in H.
  assert (Cr2 : core r2 = true) by (eapply core_tail; eapply core_tail; eapply core_tail; eauto).
  rewrite (core_skip r2 Cr2) in H.
  apply bind_ok in H. destruct H as (e & r3 & E & H). inversion H; subst.
  destruct (expression_sound r2 e rest Cr2 E) as (t & W & D & Et).
  exists (SSLet name t). conj; auto.
  - simpl. rewrite D. reflexivity.
  - simpl. rewrite Et. reflexivity.
Qed.

(* whatever `parse` accepts (core tokens, one statement of the fragment) is the print of a well-formed statement *)
Theorem parse_sound : forall ts ss,
  core ts = true -> no_separator ts = true -> simple_start ts = true -> parse ts = Ok ss [] ->
  ts = [] /\ ss = [] \/ exists s, wf_stmt s = true /\ pr_stmt s = ts /\ ss = [desugar_stmt s].
Proof.
  intros ts ss C NS SS H. unfold parse in H. rewrite (core_skip ts C) in H.
  cbn [parse_loop] in H. destruct ts as [|tok r]; [left; inversion H; split; reflexivity|right].
  destruct (statement (tok :: r)) as [st rest| | |] eqn:E; try discriminate.
  destruct (statement_sound _ st rest C SS E) as (s & W & D & Et).
  assert (Crest : core rest = true) by (apply (core_app_r (pr_stmt s)); rewrite <- Et; exact C).
  assert (NSrest : no_separator rest = true).
  { unfold no_separator in *. rewrite Et in NS. rewrite forallb_app in NS. apply andb_prop in NS. tauto. }
  destruct rest as [|t2 r2].
  - inversion H; subst. exists s. conj; auto. rewrite Et. rewrite app_nil_r. reflexivity.
  - apply core_head in Crest. simpl in NSrest.
    destruct t2; try discriminate. destruct (last_is_rparen _); discriminate.
Qed.

Lemma pr_stmt_simple : forall s, wf_stmt s = true -> simple_start (pr_stmt s) = true.
Proof.
  intros [t|n t|k args] W; simpl in W.
  - destruct (pr_first t W) as (tok & r & E & Fi & _). simpl. rewrite E. destruct tok; try discriminate; reflexivity.
  - reflexivity.
  - apply andb_prop in W. destruct W as [Hk _]. destruct k; try discriminate; reflexivity.
Qed.

(* acceptance of a core token list (one statement of the fragment) characterised exactly *)
Theorem parse_characterised : forall ts st,
  core ts = true -> no_separator ts = true -> simple_start ts = true ->
  (parse ts = Ok [st] [] <-> exists s, wf_stmt s = true /\ pr_stmt s = ts /\ desugar_stmt s = st).
Proof.
  intros ts st C NS SS. split.
  - intros H. destruct (parse_sound ts [st] C NS SS H) as [[_ E]|(s & W & P & E)]; [discriminate|].
    exists s. inversion E; subst. conj; auto.
  - intros (s & W & P & D). subst. apply roundtrip_stmt. exact W.
Qed.
