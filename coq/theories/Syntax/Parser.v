(* C10 — model of the expression part of numbat/src/parser.rs: one definition
   per Rust function (postfix_apply … primary, parse_binop, arguments).
   No proofs in this file.

   Recursion: `expression` is re-entered only from `primary`/`arguments`
   (parentheses, call arguments, list and struct literals); that knot is tied
   by the depth fuel of `expression_d`.  The four self-recursive functions
   (condition, logical_neg, unary, power) and the loops (parse_binop, ifactor,
   call, arguments, list/struct literals) use a local fuel that is the length
   of the token list they start on; running out of either is the explicit
   result OutOfFuel. *)
From Coq Require Import List NArith ZArith Bool.
From NV Require Import Syntax.Token Syntax.Ast Syntax.StrEsc.
Import ListNotations.
Local Open Scope N_scope.

Inductive perr :=
| ExpectedPrimary | MissingClosingParen | ExpectedThen | ExpectedElse
| ExpectedIdentifier | ExpectedIdentifierOrCallAfterPostfixApply
| ExpectedCommaOrRightBracketInList | InlineProcedureUsage
| ExpectedFieldNameInStruct | ExpectedColonAfterFieldName
| ExpectedCommaOrRightCurlyInStructFieldList | OverflowInNumberLiteral
| TrailingCharacters | TrailingEqualSign | TrailingEqualSignFunction
| ExpectedIdentifierAfterLet | ExpectedEqualOrColonAfterLetIdentifier | ExpectedLeftParenAfterProcedureName.

Inductive res (A : Type) :=
| Ok (a : A) (rest : list token)
| Err (e : perr)
| OutOfFuel
| Unsupported.     (* string interpolation / statement syntax: outside this model *)
Arguments Ok {A}. Arguments Err {A}. Arguments OutOfFuel {A}. Arguments Unsupported {A}.

Definition parser := list token -> res expr.

Definition bind {A B} (r : res A) (k : A -> list token -> res B) : res B :=
  match r with
  | Ok a rest => k a rest
  | Err e => Err e
  | OutOfFuel => OutOfFuel
  | Unsupported => Unsupported
  end.

(* Parser::skip_empty_lines *)
Fixpoint skip_empty_lines (ts : list token) : list token :=
  match ts with
  | TNewline :: r => skip_empty_lines r
  | _ => ts
  end.

(* value of a hex/oct/bin literal: i128::from_str_radix(&lexeme[2..].replace('_',""), base) *)
Definition digit_val (c : N) : N :=
  if (48 <=? c) && (c <=? 57) then c - 48
  else if (97 <=? c) && (c <=? 102) then c - 87
  else if (65 <=? c) && (c <=? 70) then c - 55
  else 0.
Definition radix_value (base : N) (digits : str) : N :=
  fold_left (fun acc c => if c =? 95 then acc else acc * base + digit_val c) digits 0%N.
Definition i128_overflow (v : N) : bool := (2 ^ 127 <=? v)%N.
Definition remove_underscores (s : str) : str := filter (fun c => negb (c =? 95)%N) s.

(* Parser::unicode_exponent_to_int *)
Definition sup_digit (c : N) : Z :=
  if c =? 185 then 1 else if c =? 178 then 2 else if c =? 179 then 3
  else if (8308 <=? c) && (c <=? 8313) then Z.of_N (c - 8304) else 0.
Definition unicode_exponent_to_int (lexeme : str) : Z :=
  match lexeme with
  | [c] => sup_digit c
  | [m; c] => (- sup_digit c)%Z
  | _ => 0%Z
  end.

(* Parser::next_token_could_start_power_expression *)
Definition could_start_power (ts : list token) : bool :=
  match ts with
  | TNumber _ :: _ | TIdent _ :: _ | TLParen :: _ | TQuestionMark :: _ => true
  | _ => false
  end.

(* Parser::parse_binop: `ops` maps a token to the operator it denotes at this level *)
Fixpoint binop_loop (n : nat) (ops : token -> option binop) (next : parser)
         (acc : expr) (ts : list token) : res expr :=
  match n with
  | O => OutOfFuel
  | S n =>
      match ts with
      | t :: r =>
          match ops t with
          | Some op => bind (next r) (fun rhs rest => binop_loop n ops next (EBin op acc rhs) rest)
          | None => Ok acc ts
          end
      | [] => Ok acc ts
      end
  end.
Definition parse_binop (ops : token -> option binop) (next : parser) : parser :=
  fun ts => bind (next ts) (fun e rest => binop_loop (S (length rest)) ops next e rest).

Definition ops_conversion (t : token) := match t with TArrow | TTo => Some ConvertTo | _ => None end.
Definition ops_or (t : token) := match t with TLogicalOr => Some LogicalOr | _ => None end.
Definition ops_and (t : token) := match t with TLogicalAnd => Some LogicalAnd | _ => None end.
Definition ops_comparison (t : token) :=
  match t with
  | TLessThan => Some LessThan | TGreaterThan => Some GreaterThan
  | TLessOrEqual => Some LessOrEqual | TGreaterOrEqual => Some GreaterOrEqual
  | TEqualEqual => Some Equal | TNotEqual => Some NotEqual
  | _ => None
  end.
Definition ops_term (t : token) := match t with TPlus => Some Add | TMinus => Some Sub | _ => None end.
Definition ops_factor (t : token) := match t with TMultiply => Some Mul | TDivide => Some Div | _ => None end.
Definition ops_per (t : token) := match t with TPer => Some Div | _ => None end.

Section Levels.
  (* Parser::expression, one nesting level further down *)
  Variable expression : parser.

  (* Parser::arguments: called after the opening parenthesis *)
  Fixpoint arguments_loop (n : nat) (args : list expr) (ts : list token) : res (list expr) :=
    match n with
    | O => OutOfFuel
    | S n =>
        match skip_empty_lines ts with
        | TComma :: r =>
            match skip_empty_lines r with
            | TRParen :: r' => Ok args r'
            | r' =>
                match expression r' with
                | Ok e rest => arguments_loop n (args ++ [e]) rest
                | Err _ => Err MissingClosingParen
                | OutOfFuel => OutOfFuel
                | Unsupported => Unsupported
                end
            end
        | TRParen :: r => Ok args r
        | _ => Err MissingClosingParen
        end
    end.
  Definition arguments (ts : list token) : res (list expr) :=
    match skip_empty_lines ts with
    | TRParen :: r => Ok [] r
    | ts' => bind (expression ts') (fun e rest => arguments_loop (S (length rest)) [e] rest)
    end.

  (* list literal, after the opening bracket and skip_empty_lines *)
  Fixpoint list_loop (n : nat) (els : list expr) (ts : list token) : res expr :=
    match n with
    | O => OutOfFuel
    | S n =>
        match ts with
        | TRBracket :: r => Ok (EList els) r
        | _ =>
            bind (expression (skip_empty_lines ts)) (fun e rest =>
              match skip_empty_lines rest with
              | TComma :: r => list_loop n (els ++ [e]) (skip_empty_lines r)
              | TRBracket :: r => list_loop n (els ++ [e]) (skip_empty_lines (TRBracket :: r))
              | _ => Err ExpectedCommaOrRightBracketInList
              end)
        end
    end.

  (* struct literal, after `{` and skip_empty_lines *)
  Fixpoint struct_loop (n : nat) (name : str) (fields : list (str * expr)) (ts : list token) : res expr :=
    match n with
    | O => OutOfFuel
    | S n =>
        match ts with
        | TRCurly :: r => Ok (EStruct name fields) r
        | _ =>
            match skip_empty_lines ts with
            | TIdent f :: r =>
                match skip_empty_lines r with
                | TColon :: r' =>
                    bind (expression (skip_empty_lines r')) (fun e rest =>
                      match skip_empty_lines rest with
                      | TComma :: r'' => struct_loop n name (fields ++ [(f, e)]) (skip_empty_lines r'')
                      | TRCurly :: r'' => struct_loop n name (fields ++ [(f, e)]) (TRCurly :: r'')
                      | _ => Err ExpectedCommaOrRightCurlyInStructFieldList
                      end)
                | _ => Err ExpectedColonAfterFieldName
                end
            | _ => Err ExpectedFieldNameInStruct
            end
        end
    end.

  (* Parser::primary *)
  Definition primary : parser := fun ts =>
    match ts with
    | TNumber lex :: r => Ok (EScalar (remove_underscores lex)) r
    | TIntBase base lex :: r =>
        if i128_overflow (radix_value base (tl (tl lex))) then Err OverflowInNumberLiteral
        else Ok (EScalar (remove_underscores lex)) r
    | TNaN :: r => Ok (EScalar [78; 97; 78]%N) r
    | TInf :: r => Ok (EScalar [105; 110; 102]%N) r
    | TLBracket :: r => list_loop (S (length r)) [] (skip_empty_lines r)
    | TQuestionMark :: r => Ok EHole r
    | TIdent name :: TLCurly :: r => struct_loop (S (length r)) name [] (skip_empty_lines r)
    | TIdent name :: r => Ok (EIdent name) r
    | TTrue :: r => Ok (EBool true) r
    | TFalse :: r => Ok (EBool false) r
    | TString lex :: r => Ok (EString (strip_and_escape lex)) r
    | TInterpStart _ :: _ => Unsupported
    | TLParen :: r =>
        bind (expression r) (fun inner rest =>
          match rest with
          | TRParen :: rest' => Ok inner rest'
          | _ => Err MissingClosingParen
          end)
    | TKw KPrint :: _ | TKw KAssertEq :: _ => Err InlineProcedureUsage
    | TInterpMiddle _ :: _ | TInterpEnd _ :: _ | TInterpSpec _ :: _ => Unsupported
    | _ => Err ExpectedPrimary
    end.

  (* Parser::call *)
  Fixpoint call_loop (n : nat) (e : expr) (ts : list token) : res expr :=
    match n with
    | O => OutOfFuel
    | S n =>
        match ts with
        | TLParen :: r => bind (arguments r) (fun args rest => call_loop n (ECall e args) rest)
        | TPeriod :: TIdent f :: r => call_loop n (EField e f) r
        | TPeriod :: _ => Err ExpectedIdentifier
        | _ => Ok e ts
        end
    end.
  Definition call : parser := fun ts => bind (primary ts) (fun e rest => call_loop (S (length rest)) e rest).

  (* Parser::unicode_power *)
  Definition unicode_power : parser := fun ts =>
    bind (call ts) (fun e rest =>
      match rest with
      | TUnicodeExponent lex :: r => Ok (EBin Power e (EScalarExp (unicode_exponent_to_int lex))) r
      | _ => Ok e rest
      end).

  (* Parser::factorial *)
  Fixpoint count_excl (ts : list token) : nat * list token :=
    match ts with
    | TExcl :: r => let (k, r') := count_excl r in (S k, r')
    | _ => (O, ts)
    end.
  Definition factorial : parser := fun ts =>
    bind (unicode_power ts) (fun e rest =>
      match count_excl rest with
      | (O, _) => Ok e rest
      | (order, r) => Ok (EUn (Factorial order) e) r
      end).

  (* Parser::power *)
  Fixpoint power_n (n : nat) (ts : list token) : res expr :=
    match n with
    | O => OutOfFuel
    | S n =>
        bind (factorial ts) (fun e rest =>
          match rest with
          | TPower :: TMinus :: r => bind (power_n n r) (fun rhs rest' => Ok (EBin Power e (EUn Negate rhs)) rest')
          | TPower :: r => bind (power_n n r) (fun rhs rest' => Ok (EBin Power e rhs) rest')
          | _ => Ok e rest
          end)
    end.
  Definition power : parser := fun ts => power_n (S (length ts)) ts.

  (* Parser::ifactor *)
  Fixpoint ifactor_loop (n : nat) (acc : expr) (ts : list token) : res expr :=
    match n with
    | O => OutOfFuel
    | S n =>
        if could_start_power ts
        then bind (power ts) (fun rhs rest => ifactor_loop n (EBin Mul acc rhs) rest)
        else Ok acc ts
    end.
  Definition ifactor : parser := fun ts => bind (power ts) (fun e rest => ifactor_loop (S (length rest)) e rest).

  (* Parser::unary *)
  Fixpoint unary_n (n : nat) (ts : list token) : res expr :=
    match n with
    | O => OutOfFuel
    | S n =>
        match ts with
        | TMinus :: r => bind (unary_n n r) (fun rhs rest => Ok (EUn Negate rhs) rest)
        | TPlus :: r => unary_n n r
        | _ => ifactor ts
        end
    end.
  Definition unary : parser := fun ts => unary_n (S (length ts)) ts.

  Definition per_factor : parser := parse_binop ops_per unary.
  Definition factor : parser := parse_binop ops_factor per_factor.
  Definition term : parser := parse_binop ops_term factor.
  Definition comparison : parser := parse_binop ops_comparison term.

  (* Parser::logical_neg *)
  Fixpoint logical_neg_n (n : nat) (ts : list token) : res expr :=
    match n with
    | O => OutOfFuel
    | S n =>
        match ts with
        | TExcl :: r => bind (logical_neg_n n r) (fun rhs rest => Ok (EUn LogicalNeg rhs) rest)
        | _ => comparison ts
        end
    end.
  Definition logical_neg : parser := fun ts => logical_neg_n (S (length ts)) ts.

  Definition logical_and : parser := parse_binop ops_and logical_neg.
  Definition logical_or : parser := parse_binop ops_or logical_and.
  Definition conversion : parser := parse_binop ops_conversion logical_or.

  (* Parser::condition *)
  Fixpoint condition_n (n : nat) (ts : list token) : res expr :=
    match n with
    | O => OutOfFuel
    | S n =>
        match ts with
        | TIf :: r =>
            bind (conversion r) (fun c rest =>
              match skip_empty_lines rest with
              | TThen :: r1 =>
                  bind (condition_n n (skip_empty_lines r1)) (fun t rest1 =>
                    match skip_empty_lines rest1 with
                    | TElse :: r2 =>
                        bind (condition_n n (skip_empty_lines r2)) (fun e rest2 => Ok (EIf c t e) rest2)
                    | _ => Err ExpectedElse
                    end)
              | _ => Err ExpectedThen
              end)
        | _ => conversion ts
        end
    end.
  Definition condition : parser := fun ts => condition_n (S (length ts)) ts.

  (* Parser::postfix_apply *)
  Fixpoint postfix_loop (n : nat) (acc : expr) (ts : list token) : res expr :=
    match n with
    | O => OutOfFuel
    | S n =>
        match ts with
        | TPostfixApply :: r =>
            bind (call (skip_empty_lines r)) (fun f rest =>
              match f with
              | EIdent name => postfix_loop n (ECall (EIdent name) [acc]) rest
              | ECall callee args => postfix_loop n (ECall callee (args ++ [acc])) rest
              | _ => Err ExpectedIdentifierOrCallAfterPostfixApply
              end)
        | _ => Ok acc ts
        end
    end.
  Definition postfix_apply : parser := fun ts =>
    bind (condition ts) (fun e rest => postfix_loop (S (length rest)) e rest).
End Levels.

(* Parser::expression with nesting depth d *)
Fixpoint expression_d (d : nat) : parser :=
  match d with
  | O => fun _ => OutOfFuel
  | S d => postfix_apply (expression_d d)
  end.

Definition expression : parser := fun ts => expression_d (S (length ts)) ts.

(* Statements of the model: expressions, `let name = e` without type annotation and decorators,
   and the procedure calls print / assert / assert_eq / type. *)
Inductive stmt :=
| StExpr (e : expr)
| StLet (name : str) (e : expr)
| StProc (k : kw) (args : list expr).

(* Parser::statement / Parser::parse: the statements, or the kind of the first error.
   fn / dimension / unit / use / struct definitions, decorators and type annotations are
   outside the model (explicit Unsupported). *)
Definition starts_other_statement (ts : list token) : bool :=
  match ts with
  | TKw KFn :: _ | TKw KDimension :: _ | TAt :: _ | TKw KUnit :: _
  | TKw KUse :: _ | TKw KStruct :: _ => true
  | _ => false
  end.

Definition is_procedure (k : kw) : bool :=
  match k with KPrint | KAssert | KAssertEq | KType => true | _ => false end.

(* Parser::parse_variable (after `let`) *)
Definition parse_variable (ts : list token) : res stmt :=
  match ts with
  | TIdent name :: TColon :: _ => Unsupported
  | TIdent name :: TEqual :: r =>
      bind (expression (skip_empty_lines r)) (fun e rest => Ok (StLet name e) rest)
  | TIdent _ :: _ => Err ExpectedEqualOrColonAfterLetIdentifier
  | _ => Err ExpectedIdentifierAfterLet
  end.

(* Parser::parse_procedure (after the procedure keyword) *)
Definition parse_procedure (k : kw) (ts : list token) : res stmt :=
  match ts with
  | TLParen :: r =>
      bind (arguments (expression_d (S (length r))) r) (fun args rest => Ok (StProc k args) rest)
  | _ => Err ExpectedLeftParenAfterProcedureName
  end.

Definition statement (ts : list token) : res stmt :=
  match ts with
  | TKw KLet :: r => parse_variable r
  | TKw k :: r =>
      if is_procedure k then parse_procedure k r
      else bind (expression ts) (fun e rest => Ok (StExpr e) rest)
  | _ => bind (expression ts) (fun e rest => Ok (StExpr e) rest)
  end.

Definition last_is_rparen (consumed : list token) : bool :=
  match rev consumed with TRParen :: _ => true | _ => false end.

Fixpoint parse_loop (n : nat) (acc : list stmt) (ts : list token) : res (list stmt) :=
  match n with
  | O => OutOfFuel
  | S n =>
      match ts with
      | [] => Ok acc []
      | _ =>
          if starts_other_statement ts then Unsupported
          else
            match statement ts with
            | Ok e rest =>
                match rest with
                | TNewline :: _ => parse_loop n (acc ++ [e]) (skip_empty_lines rest)
                | TSemicolon :: r => parse_loop n (acc ++ [e]) (skip_empty_lines r)
                | [] => Ok (acc ++ [e]) []
                | TEqual :: _ =>
                    (* the token before `=` decides between the two messages *)
                    if last_is_rparen (firstn (length ts - length rest) ts)
                    then Err TrailingEqualSignFunction else Err TrailingEqualSign
                | _ => Err TrailingCharacters
                end
            | Err e => Err e
            | OutOfFuel => OutOfFuel
            | Unsupported => Unsupported
            end
      end
  end.

Definition parse (ts : list token) : res (list stmt) :=
  parse_loop (S (length ts)) [] (skip_empty_lines ts).
