(* C10 — model of the expression part of numbat/src/parser.rs: one definition
   per Rust function (postfix_apply … primary, parse_binop, arguments).
   No proofs in this file.

   Recursion: `expression` is re-entered only from `primary`/`arguments`
   (parentheses, call arguments, list and struct literals); that knot is tied
   by the depth fuel of `expression_d`.  The four self-recursive functions
   (condition, logical_neg, unary, power) and the loops (parse_binop, ifactor,
   call, arguments, list/struct literals) use a local fuel that is the length
   of the token list they start on; running out of either is the explicit
   result OutOfFuel. *)
From Coq Require Import List NArith ZArith Bool.
From NV Require Import Syntax.Token Syntax.Ast Syntax.StmtAst Syntax.StrEsc.
Import ListNotations.
Local Open Scope N_scope.

Inductive perr :=
| ExpectedPrimary | MissingClosingParen | ExpectedThen | ExpectedElse
| ExpectedIdentifier | ExpectedIdentifierOrCallAfterPostfixApply
| ExpectedCommaOrRightBracketInList | InlineProcedureUsage
| ExpectedFieldNameInStruct | ExpectedColonAfterFieldName
| ExpectedCommaOrRightCurlyInStructFieldList | OverflowInNumberLiteral
| TrailingCharacters | TrailingEqualSign | TrailingEqualSignFunction
| ExpectedIdentifierAfterLet | ExpectedEqualOrColonAfterLetIdentifier | ExpectedLeftParenAfterProcedureName
| ExpectedIdentifierAfterFn | ExpectedLeftParenInFunctionDefinition
| ExpectedCommaEllipsisOrRightParenInFunctionDefinition | ExpectedParameterNameInFunctionDefinition
| ExpectedLocalVariableDefinition | AliasUsedOnFunction | ExpectedIdentifierAfterDimension
| DoubleUnderscoreTypeNamesReserved | ExpectedDecoratorName | UnknownDecorator | ExpectedLeftParenAfterDecorator
| ExpectedString | ExpectedIdentifierAfterUnit | ExpectedColonOrEqualAfterUnitIdentifier
| ExampleUsedOnUnsuitableKind | DecoratorsWithPrefixOnLetDefinition | DecoratorUsedOnUnsuitableKind
| ExpectedModulePathAfterUse | ExpectedModuleNameAfterDoubleColon | ExpectedLeftCurlyAfterStructName
| UnknownBound | ExpectedBoundInTypeParameterDefinition | ExpectedCommaOrRightAngleBracket
| ExpectedTypeParameterName | ExpectedTokenInFunctionType | ExpectedTokenInListType
| ExpectedDimensionPrimary | ExpectedDimensionExponent | NumberInDimensionExponentOutOfRange
| DivisionByZeroInDimensionExponent | OverflowInDimensionExponent | UnknownAliasAnnotation
| EmptyStringInterpolation | UnterminatedStringParse.

Inductive res (A : Type) :=
| Ok (a : A) (rest : list token)
| Err (e : perr)
| OutOfFuel
| Unsupported.     (* a construct outside this model (a `>=` token that closes a type-parameter list) *)
Arguments Ok {A}. Arguments Err {A}. Arguments OutOfFuel {A}. Arguments Unsupported {A}.

Definition parser := list token -> res expr.

Definition bind {A B} (r : res A) (k : A -> list token -> res B) : res B :=
  match r with
  | Ok a rest => k a rest
  | Err e => Err e
  | OutOfFuel => OutOfFuel
  | Unsupported => Unsupported
  end.

(* Parser::skip_empty_lines *)
Fixpoint skip_empty_lines (ts : list token) : list token :=
  match ts with
  | TNewline :: r => skip_empty_lines r
  | _ => ts
  end.

(* value of a hex/oct/bin literal: i128::from_str_radix(&lexeme[2..].replace('_',""), base) *)
Definition digit_val (c : N) : N :=
  if (48 <=? c) && (c <=? 57) then c - 48
  else if (97 <=? c) && (c <=? 102) then c - 87
  else if (65 <=? c) && (c <=? 70) then c - 55
  else 0.
Definition radix_value (base : N) (digits : str) : N :=
  fold_left (fun acc c => if c =? 95 then acc else acc * base + digit_val c) digits 0%N.
Definition i128_overflow (v : N) : bool := (2 ^ 127 <=? v)%N.
Definition remove_underscores (s : str) : str := filter (fun c => negb (c =? 95)%N) s.

(* Parser::unicode_exponent_to_int *)
Definition sup_digit (c : N) : Z :=
  if c =? 185 then 1 else if c =? 178 then 2 else if c =? 179 then 3
  else if (8308 <=? c) && (c <=? 8313) then Z.of_N (c - 8304) else 0.
Definition unicode_exponent_to_int (lexeme : str) : Z :=
  match lexeme with
  | [c] => sup_digit c
  | [m; c] => (- sup_digit c)%Z
  | _ => 0%Z
  end.

(* Parser::next_token_could_start_power_expression *)
Definition could_start_power (ts : list token) : bool :=
  match ts with
  | TNumber _ :: _ | TIdent _ :: _ | TLParen :: _ | TQuestionMark :: _ => true
  | _ => false
  end.

(* Parser::parse_binop: `ops` maps a token to the operator it denotes at this level *)
Fixpoint binop_loop (n : nat) (ops : token -> option binop) (next : parser)
         (acc : expr) (ts : list token) : res expr :=
  match n with
  | O => OutOfFuel
  | S n =>
      match ts with
      | t :: r =>
          match ops t with
          | Some op => bind (next r) (fun rhs rest => binop_loop n ops next (EBin op acc rhs) rest)
          | None => Ok acc ts
          end
      | [] => Ok acc ts
      end
  end.
Definition parse_binop (ops : token -> option binop) (next : parser) : parser :=
  fun ts => bind (next ts) (fun e rest => binop_loop (S (length rest)) ops next e rest).

Definition ops_conversion (t : token) := match t with TArrow | TTo => Some ConvertTo | _ => None end.
Definition ops_or (t : token) := match t with TLogicalOr => Some LogicalOr | _ => None end.
Definition ops_and (t : token) := match t with TLogicalAnd => Some LogicalAnd | _ => None end.
Definition ops_comparison (t : token) :=
  match t with
  | TLessThan => Some LessThan | TGreaterThan => Some GreaterThan
  | TLessOrEqual => Some LessOrEqual | TGreaterOrEqual => Some GreaterOrEqual
  | TEqualEqual => Some Equal | TNotEqual => Some NotEqual
  | _ => None
  end.
Definition ops_term (t : token) := match t with TPlus => Some Add | TMinus => Some Sub | _ => None end.
Definition ops_factor (t : token) := match t with TMultiply => Some Mul | TDivide => Some Div | _ => None end.
Definition ops_per (t : token) := match t with TPer => Some Div | _ => None end.

Section Levels.
  (* Parser::expression, one nesting level further down *)
  Variable expression : parser.

  (* Parser::arguments: called after the opening parenthesis *)
  Fixpoint arguments_loop (n : nat) (args : list expr) (ts : list token) : res (list expr) :=
    match n with
    | O => OutOfFuel
    | S n =>
        match skip_empty_lines ts with
        | TComma :: r =>
            match skip_empty_lines r with
            | TRParen :: r' => Ok args r'
            | r' =>
                match expression r' with
                | Ok e rest => arguments_loop n (args ++ [e]) rest
                | Err _ => Err MissingClosingParen
                | OutOfFuel => OutOfFuel
                | Unsupported => Unsupported
                end
            end
        | TRParen :: r => Ok args r
        | _ => Err MissingClosingParen
        end
    end.
  Definition arguments (ts : list token) : res (list expr) :=
    match skip_empty_lines ts with
    | TRParen :: r => Ok [] r
    | ts' => bind (expression ts') (fun e rest => arguments_loop (S (length rest)) [e] rest)
    end.

  (* list literal, after the opening bracket and skip_empty_lines *)
  Fixpoint list_loop (n : nat) (els : list expr) (ts : list token) : res expr :=
    match n with
    | O => OutOfFuel
    | S n =>
        match ts with
        | TRBracket :: r => Ok (EList els) r
        | _ =>
            bind (expression (skip_empty_lines ts)) (fun e rest =>
              match skip_empty_lines rest with
              | TComma :: r => list_loop n (els ++ [e]) (skip_empty_lines r)
              | TRBracket :: r => list_loop n (els ++ [e]) (skip_empty_lines (TRBracket :: r))
              | _ => Err ExpectedCommaOrRightBracketInList
              end)
        end
    end.

  (* struct literal, after `{` and skip_empty_lines *)
  Fixpoint struct_loop (n : nat) (name : str) (fields : list (str * expr)) (ts : list token) : res expr :=
    match n with
    | O => OutOfFuel
    | S n =>
        match ts with
        | TRCurly :: r => Ok (EStruct name fields) r
        | _ =>
            match skip_empty_lines ts with
            | TIdent f :: r =>
                match skip_empty_lines r with
                | TColon :: r' =>
                    bind (expression (skip_empty_lines r')) (fun e rest =>
                      match skip_empty_lines rest with
                      | TComma :: r'' => struct_loop n name (fields ++ [(f, e)]) (skip_empty_lines r'')
                      | TRCurly :: r'' => struct_loop n name (fields ++ [(f, e)]) (TRCurly :: r'')
                      | _ => Err ExpectedCommaOrRightCurlyInStructFieldList
                      end)
                | _ => Err ExpectedColonAfterFieldName
                end
            | _ => Err ExpectedFieldNameInStruct
            end
        end
    end.

  (* Parser::interpolation: the expression of one `{…}` and its optional format specifiers.
     The error of an empty interpolation (Parser::primary: the previous token is the opening string
     part and nothing can start an expression) is decided on the first token: every other token is
     consumed by a prefix rule or by primary before an ExpectedPrimary can arise. *)
  Definition starts_no_expression (ts : list token) : bool :=
    match ts with
    | [] => true
    | t :: _ =>
        match t with
        | TNumber _ | TIntBase _ _ | TNaN | TInf | TLBracket | TQuestionMark | TIdent _ | TTrue | TFalse
        | TString _ | TInterpStart _ | TLParen | TMinus | TPlus | TExcl | TIf => false
        | TKw KPrint | TKw KAssertEq => false
        | _ => true
        end
    end.
  Definition interpolation (ts : list token) : res (list (ipart expr)) :=
    if starts_no_expression ts then Err EmptyStringInterpolation
    else
      bind (expression ts) (fun e rest =>
        match rest with
        | TInterpSpec f :: rest' => Ok [PExpr e (Some f)] rest'
        | _ => Ok [PExpr e None] rest
        end).
  Definition nonempty_part (p : ipart expr) : bool :=
    match p with PFixed [] => false | _ => true end.
  (* the loop over StringInterpolationMiddle / End tokens *)
  Fixpoint interp_loop (n : nat) (acc : list (ipart expr)) (ts : list token) : res expr :=
    match n with
    | O => OutOfFuel
    | S n =>
        match ts with
        | TInterpMiddle lex :: r =>
            bind (interpolation r) (fun ps rest =>
              interp_loop n (acc ++ PFixed (strip_and_escape lex) :: ps) rest)
        | TInterpEnd lex :: r =>
            Ok (EInterp (filter nonempty_part (acc ++ [PFixed (strip_and_escape lex)]))) r
        | _ => Err UnterminatedStringParse
        end
    end.

  (* Parser::primary *)
  Definition primary : parser := fun ts =>
    match ts with
    | TNumber lex :: r => Ok (EScalar (remove_underscores lex)) r
    | TIntBase base lex :: r =>
        if i128_overflow (radix_value base (tl (tl lex))) then Err OverflowInNumberLiteral
        else Ok (EScalar (remove_underscores lex)) r
    | TNaN :: r => Ok (EScalar [78; 97; 78]%N) r
    | TInf :: r => Ok (EScalar [105; 110; 102]%N) r
    | TLBracket :: r => list_loop (S (length r)) [] (skip_empty_lines r)
    | TQuestionMark :: r => Ok EHole r
    | TIdent name :: TLCurly :: r => struct_loop (S (length r)) name [] (skip_empty_lines r)
    | TIdent name :: r => Ok (EIdent name) r
    | TTrue :: r => Ok (EBool true) r
    | TFalse :: r => Ok (EBool false) r
    | TString lex :: r => Ok (EString (strip_and_escape lex)) r
    | TInterpStart lex :: r =>
        bind (interpolation r) (fun ps rest =>
          interp_loop (S (length rest)) (PFixed (strip_and_escape lex) :: ps) rest)
    | TLParen :: r =>
        bind (expression r) (fun inner rest =>
          match rest with
          | TRParen :: rest' => Ok inner rest'
          | _ => Err MissingClosingParen
          end)
    | TKw KPrint :: _ | TKw KAssertEq :: _ => Err InlineProcedureUsage
    | _ => Err ExpectedPrimary
    end.

  (* Parser::call *)
  Fixpoint call_loop (n : nat) (e : expr) (ts : list token) : res expr :=
    match n with
    | O => OutOfFuel
    | S n =>
        match ts with
        | TLParen :: r => bind (arguments r) (fun args rest => call_loop n (ECall e args) rest)
        | TPeriod :: TIdent f :: r => call_loop n (EField e f) r
        | TPeriod :: _ => Err ExpectedIdentifier
        | _ => Ok e ts
        end
    end.
  Definition call : parser := fun ts => bind (primary ts) (fun e rest => call_loop (S (length rest)) e rest).

  (* Parser::unicode_power *)
  Definition unicode_power : parser := fun ts =>
    bind (call ts) (fun e rest =>
      match rest with
      | TUnicodeExponent lex :: r => Ok (EBin Power e (EScalarExp (unicode_exponent_to_int lex))) r
      | _ => Ok e rest
      end).

  (* Parser::factorial *)
  Fixpoint count_excl (ts : list token) : nat * list token :=
    match ts with
    | TExcl :: r => let (k, r') := count_excl r in (S k, r')
    | _ => (O, ts)
    end.
  Definition factorial : parser := fun ts =>
    bind (unicode_power ts) (fun e rest =>
      match count_excl rest with
      | (O, _) => Ok e rest
      | (order, r) => Ok (EUn (Factorial order) e) r
      end).

  (* Parser::power *)
  Fixpoint power_n (n : nat) (ts : list token) : res expr :=
    match n with
    | O => OutOfFuel
    | S n =>
        bind (factorial ts) (fun e rest =>
          match rest with
          | TPower :: TMinus :: r => bind (power_n n r) (fun rhs rest' => Ok (EBin Power e (EUn Negate rhs)) rest')
          | TPower :: r => bind (power_n n r) (fun rhs rest' => Ok (EBin Power e rhs) rest')
          | _ => Ok e rest
          end)
    end.
  Definition power : parser := fun ts => power_n (S (length ts)) ts.

  (* Parser::ifactor *)
  Fixpoint ifactor_loop (n : nat) (acc : expr) (ts : list token) : res expr :=
    match n with
    | O => OutOfFuel
    | S n =>
        if could_start_power ts
        then bind (power ts) (fun rhs rest => ifactor_loop n (EBin Mul acc rhs) rest)
        else Ok acc ts
    end.
  Definition ifactor : parser := fun ts => bind (power ts) (fun e rest => ifactor_loop (S (length rest)) e rest).

  (* Parser::unary *)
  Fixpoint unary_n (n : nat) (ts : list token) : res expr :=
    match n with
    | O => OutOfFuel
    | S n =>
        match ts with
        | TMinus :: r => bind (unary_n n r) (fun rhs rest => Ok (EUn Negate rhs) rest)
        | TPlus :: r => unary_n n r
        | _ => ifactor ts
        end
    end.
  Definition unary : parser := fun ts => unary_n (S (length ts)) ts.

  Definition per_factor : parser := parse_binop ops_per unary.
  Definition factor : parser := parse_binop ops_factor per_factor.
  Definition term : parser := parse_binop ops_term factor.
  Definition comparison : parser := parse_binop ops_comparison term.

  (* Parser::logical_neg *)
  Fixpoint logical_neg_n (n : nat) (ts : list token) : res expr :=
    match n with
    | O => OutOfFuel
    | S n =>
        match ts with
        | TExcl :: r => bind (logical_neg_n n r) (fun rhs rest => Ok (EUn LogicalNeg rhs) rest)
        | _ => comparison ts
        end
    end.
  Definition logical_neg : parser := fun ts => logical_neg_n (S (length ts)) ts.

  Definition logical_and : parser := parse_binop ops_and logical_neg.
  Definition logical_or : parser := parse_binop ops_or logical_and.
  Definition conversion : parser := parse_binop ops_conversion logical_or.

  (* Parser::condition *)
  Fixpoint condition_n (n : nat) (ts : list token) : res expr :=
    match n with
    | O => OutOfFuel
    | S n =>
        match ts with
        | TIf :: r =>
            bind (conversion r) (fun c rest =>
              match skip_empty_lines rest with
              | TThen :: r1 =>
                  bind (condition_n n (skip_empty_lines r1)) (fun t rest1 =>
                    match skip_empty_lines rest1 with
                    | TElse :: r2 =>
                        bind (condition_n n (skip_empty_lines r2)) (fun e rest2 => Ok (EIf c t e) rest2)
                    | _ => Err ExpectedElse
                    end)
              | _ => Err ExpectedThen
              end)
        | _ => conversion ts
        end
    end.
  Definition condition : parser := fun ts => condition_n (S (length ts)) ts.

  (* Parser::postfix_apply *)
  Fixpoint postfix_loop (n : nat) (acc : expr) (ts : list token) : res expr :=
    match n with
    | O => OutOfFuel
    | S n =>
        match ts with
        | TPostfixApply :: r =>
            bind (call (skip_empty_lines r)) (fun f rest =>
              match f with
              | EIdent name => postfix_loop n (ECall (EIdent name) [acc]) rest
              | ECall callee args => postfix_loop n (ECall callee (args ++ [acc])) rest
              | _ => Err ExpectedIdentifierOrCallAfterPostfixApply
              end)
        | _ => Ok acc ts
        end
    end.
  Definition postfix_apply : parser := fun ts =>
    bind (condition ts) (fun e rest => postfix_loop (S (length rest)) e rest).
End Levels.

(* Parser::expression with nesting depth d *)
Fixpoint expression_d (d : nat) : parser :=
  match d with
  | O => fun _ => OutOfFuel
  | S d => postfix_apply (expression_d d)
  end.

Definition expression : parser := fun ts => expression_d (S (length ts)) ts.

(* ------------------------------------------------------------------------
   Type annotations and dimension expressions (Parser::type_annotation,
   dimension_expression, dimension_factor, dimension_power, dimension_exponent,
   dimension_primary).  A `>=` token in the position of a closing `>` (the
   `pending_equals` device of the Rust parser) is outside the model: Unsupported. *)

Definition i128_max : Z := (2 ^ 127 - 1)%Z.

(* Ratio::new: lowest terms, positive denominator *)
Definition mk_exponent (n : Z) (d : Z) : exponent :=
  let g := Z.gcd n d in
  let n' := (n / g)%Z in let d' := (d / g)%Z in
  match d' with
  | Zpos p => (n', p)
  | Zneg p => ((- n')%Z, p)
  | Z0 => (n', 1%positive)
  end.
Definition exp_neg (e : exponent) : exponent := ((- fst e)%Z, snd e).
Definition exp_is_zero (e : exponent) : bool := Z.eqb (fst e) 0.
Definition exp_fits (e : exponent) : bool :=
  (Z.leb (Z.abs (fst e)) i128_max) && (Z.leb (Zpos (snd e)) i128_max).
Definition exp_div (a b : exponent) : exponent :=
  mk_exponent (fst a * Zpos (snd b))%Z (Zpos (snd a) * fst b)%Z.

Definition all_digits (s : str) : bool := forallb (fun c => (48 <=? c) && (c <=? 57)) s.
Definition decimal_value (s : str) : Z :=
  fold_left (fun acc c => (acc * 10 + Z.of_N (c - 48))%Z) s 0%Z.

Definition starts_double_underscore (s : str) : bool :=
  match s with 95 :: 95 :: _ => true | _ => false end.

(* Parser::dimension_exponent *)
Fixpoint dimension_exponent_n (n : nat) (ts : list token) : res exponent :=
  match n with
  | O => OutOfFuel
  | S n =>
      match ts with
      | TNumber lex :: r =>
          let d := remove_underscores lex in
          if negb (match d with [] => false | _ => all_digits d end) then Err NumberInDimensionExponentOutOfRange
          else if Z.leb (decimal_value d) i128_max then Ok (decimal_value d, 1%positive) r
          else Err NumberInDimensionExponentOutOfRange
      | TMinus :: r => bind (dimension_exponent_n n r) (fun e rest => Ok (exp_neg e) rest)
      | TLParen :: r =>
          bind (dimension_exponent_n n r) (fun e rest =>
            match rest with
            | TRParen :: rest1 => Ok e rest1
            | TDivide :: rest1 =>
                bind (dimension_exponent_n n rest1) (fun rhs rest2 =>
                  if exp_is_zero rhs then Err DivisionByZeroInDimensionExponent
                  else match rest2 with
                       | TRParen :: rest3 =>
                           if exp_fits (exp_div e rhs) then Ok (exp_div e rhs) rest3
                           else Err OverflowInDimensionExponent
                       | _ => Err MissingClosingParen
                       end)
            | _ => Err MissingClosingParen
            end)
      | _ => Err ExpectedDimensionExponent
      end
  end.
Definition dimension_exponent (ts : list token) : res exponent := dimension_exponent_n (S (length ts)) ts.

Section TypeLevels.
  Variable type_annotation_k : list token -> res tann.     (* nested type annotations *)
  Variable dimension_expression_k : list token -> res texp. (* parenthesised dimension expressions *)

  (* the generic arguments `<A, B>` of a type identifier, after the first one *)
  Fixpoint type_args_loop (n : nat) (args : list tann) (ts : list token) : res (list tann) :=
    match n with
    | O => OutOfFuel
    | S n =>
        match ts with
        | TComma :: r => bind (type_annotation_k r) (fun a rest => type_args_loop n (args ++ [a]) rest)
        | TGreaterThan :: r => Ok args r
        | TGreaterOrEqual :: _ => Unsupported
        | _ => Err ExpectedCommaOrRightAngleBracket
        end
    end.

  (* Parser::dimension_primary *)
  Definition dimension_primary (ts : list token) : res texp :=
    match ts with
    | TIdent name :: r =>
        if starts_double_underscore name then Err DoubleUnderscoreTypeNamesReserved
        else
          match r with
          | TLessThan :: TGreaterThan :: r1 => Ok (TEIdent name []) r1
          | TLessThan :: TGreaterOrEqual :: _ => Unsupported
          | TLessThan :: r1 =>
              bind (type_annotation_k r1) (fun a rest =>
                bind (type_args_loop (S (length rest)) [a] rest) (fun args rest1 => Ok (TEIdent name args) rest1))
          | _ => Ok (TEIdent name []) r
          end
    | TNumber lex :: r => if list_eq_dec N.eq_dec lex [49] then Ok TEUnity r else Err ExpectedDimensionPrimary
    | TLParen :: r =>
        bind (dimension_expression_k r) (fun d rest =>
          match rest with
          | TRParen :: rest1 => Ok d rest1
          | _ => Err MissingClosingParen
          end)
    | _ => Err ExpectedDimensionPrimary
    end.

  (* Parser::dimension_power *)
  Definition dimension_power (ts : list token) : res texp :=
    bind (dimension_primary ts) (fun e rest =>
      match rest with
      | TPower :: r => bind (dimension_exponent r) (fun x rest1 => Ok (TEPow e x) rest1)
      | TUnicodeExponent lex :: r => Ok (TEPow e (unicode_exponent_to_int lex, 1%positive)) r
      | _ => Ok e rest
      end).

  (* Parser::dimension_factor (= dimension_expression) *)
  Fixpoint dimension_factor_loop (n : nat) (acc : texp) (ts : list token) : res texp :=
    match n with
    | O => OutOfFuel
    | S n =>
        match ts with
        | TMultiply :: r => bind (dimension_power r) (fun rhs rest => dimension_factor_loop n (TEMul acc rhs) rest)
        | TDivide :: r => bind (dimension_power r) (fun rhs rest => dimension_factor_loop n (TEDiv acc rhs) rest)
        | _ => Ok acc ts
        end
    end.
  Definition dimension_factor (ts : list token) : res texp :=
    bind (dimension_power ts) (fun e rest => dimension_factor_loop (S (length rest)) e rest).

  (* the parameter types of `Fn[(A, B) -> C]`, after the first one *)
  Fixpoint fn_type_params_loop (n : nat) (ps : list tann) (ts : list token) : res (list tann) :=
    match n with
    | O => OutOfFuel
    | S n =>
        match ts with
        | TComma :: r => bind (type_annotation_k r) (fun a rest => fn_type_params_loop n (ps ++ [a]) rest)
        | _ => Ok ps ts
        end
    end.

  (* Parser::type_annotation *)
  Definition type_annotation_body (ts : list token) : res tann :=
    match ts with
    | TKw KBool :: r => Ok TABool r
    | TKw KString :: r => Ok TAString r
    | TKw KDateTime :: r => Ok TADateTime r
    | TKw KCapitalFn :: r =>
        match r with
        | TLBracket :: TLParen :: r1 =>
            let params :=
              match r1 with
              | TRParen :: _ => Ok [] r1
              | _ => bind (type_annotation_k r1) (fun a rest => fn_type_params_loop (S (length rest)) [a] rest)
              end in
            bind params (fun ps rest =>
              match rest with
              | TRParen :: TArrow :: rest1 =>
                  bind (type_annotation_k rest1) (fun ret rest2 =>
                    match rest2 with
                    | TRBracket :: rest3 => Ok (TAFn ps ret) rest3
                    | _ => Err ExpectedTokenInFunctionType
                    end)
              | TRParen :: _ => Err ExpectedTokenInFunctionType
              | _ => Err MissingClosingParen
              end)
        | _ => Err ExpectedTokenInFunctionType
        end
    | TKw KList :: r =>
        match r with
        | TLessThan :: r1 =>
            bind (type_annotation_k r1) (fun a rest =>
              match rest with
              | TGreaterThan :: rest1 => Ok (TAList a) rest1
              | TGreaterOrEqual :: _ => Unsupported
              | _ => Err ExpectedTokenInListType
              end)
        | _ => Err ExpectedTokenInListType
        end
    | _ => bind (dimension_factor ts) (fun d rest => Ok (TAExp d) rest)
    end.
End TypeLevels.

(* nesting depth d: nested annotations / parenthesised dimension expressions *)
Fixpoint type_annotation_d (d : nat) : list token -> res tann :=
  match d with
  | O => fun _ => OutOfFuel
  | S d => type_annotation_body (fun ts => type_annotation_d d ts) (fun ts => dimension_expression_d d ts)
  end
with dimension_expression_d (d : nat) : list token -> res texp :=
  match d with
  | O => fun _ => OutOfFuel
  | S d => dimension_factor (fun ts => type_annotation_d d ts) (fun ts => dimension_expression_d d ts)
  end.

Definition type_annotation (ts : list token) : res tann := type_annotation_d (S (length ts)) ts.
Definition dimension_expression (ts : list token) : res texp := dimension_expression_d (S (length ts)) ts.

(* ------------------------------------------------------------------------
   Statements (Parser::statement and the parse_* functions). *)

Definition is_procedure (k : kw) : bool :=
  match k with KPrint | KAssert | KAssertEq | KType => true | _ => false end.

Definition contains_aliases (ds : list decorator) : bool :=
  existsb (fun d => match d with DAliases _ => true | _ => false end) ds.
Definition contains_aliases_with_prefixes (ds : list decorator) : bool :=
  existsb (fun d => match d with
                    | DAliases l => existsb (fun a => match snd a with Some _ => true | None => false end) l
                    | _ => false end) ds.
Definition contains_examples (ds : list decorator) : bool :=
  existsb (fun d => match d with DExample _ _ => true | _ => false end) ds.

(* Parser::parse_variable (after `let`, or after where / and with flush_decorators = false) *)
Definition parse_variable (flush : bool) (decos : list decorator) (ts : list token) : res defvar :=
  match ts with
  | TIdent name :: r =>
      let ann :=
        match r with
        | TColon :: r1 => bind (type_annotation r1) (fun a rest => Ok (Some a) rest)
        | _ => Ok None r
        end in
      bind ann (fun a rest =>
        match rest with
        | TEqual :: rest1 =>
            bind (expression (skip_empty_lines rest1)) (fun e rest2 =>
              if flush && contains_aliases_with_prefixes decos then Err DecoratorsWithPrefixOnLetDefinition
              else if flush && contains_examples decos then Err ExampleUsedOnUnsuitableKind
              else Ok (mk_defvar name a (if flush then decos else []) e) rest2)
        | _ => Err ExpectedEqualOrColonAfterLetIdentifier
        end)
  | _ => Err ExpectedIdentifierAfterLet
  end.

(* Parser::parse_procedure (after the procedure keyword) *)
Definition parse_procedure (k : kw) (ts : list token) : res stmt :=
  match ts with
  | TLParen :: r =>
      bind (arguments (expression_d (S (length r))) r) (fun args rest => Ok (StProc k args) rest)
  | _ => Err ExpectedLeftParenAfterProcedureName
  end.

(* Parser::type_parameters *)
Definition str_Dim : str := [68; 105; 109].
Fixpoint type_parameters_loop (n : nat) (acc : list (str * bool)) (ts : list token) : res (list (str * bool)) :=
  match n with
  | O => OutOfFuel
  | S n =>
      match ts with
      | TGreaterThan :: r => Ok acc r
      | TGreaterOrEqual :: _ => Unsupported
      | TIdent name :: r =>
          let bound :=
            match r with
            | TColon :: TIdent b :: r1 =>
                if list_eq_dec N.eq_dec b str_Dim then Ok true r1 else Err UnknownBound
            | TColon :: _ => Err ExpectedBoundInTypeParameterDefinition
            | _ => Ok false r
            end in
          bind bound (fun b rest =>
            match rest with
            | TComma :: rest1 => type_parameters_loop n (acc ++ [(name, b)]) rest1
            | TGreaterThan :: _ | TGreaterOrEqual :: _ => type_parameters_loop n (acc ++ [(name, b)]) rest
            | _ => Err ExpectedCommaOrRightAngleBracket
            end)
      | _ => Err ExpectedTypeParameterName
      end
  end.
Definition type_parameters (ts : list token) : res (list (str * bool)) :=
  match ts with
  | TLessThan :: r => type_parameters_loop (S (length r)) [] r
  | _ => Ok [] ts
  end.

(* the parameter list of a function definition, after `(` and an optional newline *)
Fixpoint fn_params_loop (n : nat) (acc : list (str * option tann)) (ts : list token)
  : res (list (str * option tann)) :=
  match n with
  | O => OutOfFuel
  | S n =>
      match ts with
      | TRParen :: r => Ok acc r
      | TIdent name :: r =>
          let ann :=
            match r with
            | TColon :: r1 => bind (type_annotation r1) (fun a rest => Ok (Some a) rest)
            | _ => Ok None r
            end in
          bind ann (fun a rest =>
            let acc1 := acc ++ [(name, a)] in
            match skip_empty_lines rest with
            | TComma :: rest1 =>
                match skip_empty_lines rest1 with
                | TRParen :: rest2 => Ok acc1 rest2
                | rest2 => fn_params_loop n acc1 rest2
                end
            | TRParen :: rest1 => Ok acc1 rest1
            | _ => Err ExpectedCommaEllipsisOrRightParenInFunctionDefinition
            end)
      | _ => Err ExpectedParameterNameInFunctionDefinition
      end
  end.

(* Parser::look_ahead_beyond_linebreak / match_exact_beyond_linebreaks for a keyword *)
Fixpoint drop_separators (ts : list token) : list token :=
  match ts with
  | TNewline :: r | TSemicolon :: r => drop_separators r
  | _ => ts
  end.
Definition is_kw (k : kw) (t : token) : bool :=
  match t with TKw k1 => if kw_eq_dec k k1 then true else false | _ => false end.
Definition match_kw_beyond_linebreaks (k : kw) (ts : list token) : option (list token) :=
  let ahead := match drop_separators ts with t :: _ => is_kw k t | [] => false end in
  match (if ahead then skip_empty_lines ts else ts) with
  | t :: r => if is_kw k t then Some r else None
  | [] => None
  end.

Definition local_variable (ts : list token) : res defvar :=
  match parse_variable false [] (skip_empty_lines ts) with
  | Ok v rest => Ok v rest
  | Err _ => Err ExpectedLocalVariableDefinition
  | OutOfFuel => OutOfFuel
  | Unsupported => Unsupported
  end.

Fixpoint and_loop (n : nat) (acc : list defvar) (ts : list token) : res (list defvar) :=
  match n with
  | O => OutOfFuel
  | S n =>
      match match_kw_beyond_linebreaks KAnd ts with
      | Some r => bind (local_variable r) (fun v rest => and_loop n (acc ++ [v]) rest)
      | None => Ok acc ts
      end
  end.

(* Parser::parse_function_declaration (after `fn`) *)
Definition parse_function_declaration (decos : list decorator) (ts : list token) : res stmt :=
  match ts with
  | TIdent name :: r =>
      bind (type_parameters r) (fun tps rest =>
        match rest with
        | TLParen :: rest1 =>
            let rest1a := match rest1 with TNewline :: x => x | _ => rest1 end in
            bind (fn_params_loop (S (length rest1a)) [] rest1a) (fun params rest2 =>
              let ret :=
                match rest2 with
                | TArrow :: r2 => bind (type_annotation r2) (fun a x => Ok (Some a) x)
                | _ => Ok None rest2
                end in
              bind ret (fun ret rest3 =>
                let body :=
                  match rest3 with
                  | TEqual :: r3 =>
                      bind (expression (skip_empty_lines r3)) (fun b rest4 =>
                        match match_kw_beyond_linebreaks KWhere rest4 with
                        | Some r4 =>
                            bind (local_variable r4) (fun v rest5 =>
                              bind (and_loop (S (length rest5)) [v] rest5) (fun vs rest6 => Ok (Some b, vs) rest6))
                        | None => Ok (Some b, []) rest4
                        end)
                  | _ => Ok (None, []) rest3
                  end in
                bind body (fun bl rest7 =>
                  if contains_aliases decos then Err AliasUsedOnFunction
                  else Ok (StFn name tps params ret (fst bl) (snd bl) decos) rest7)))
        | _ => Err ExpectedLeftParenInFunctionDefinition
        end)
  | _ => Err ExpectedIdentifierAfterFn
  end.

(* Parser::parse_dimension_declaration (after `dimension`) *)
Fixpoint dimension_eq_loop (n : nat) (acc : list texp) (ts : list token) : res (list texp) :=
  match n with
  | O => OutOfFuel
  | S n =>
      match ts with
      | TEqual :: r =>
          bind (dimension_expression (skip_empty_lines r)) (fun d rest => dimension_eq_loop n (acc ++ [d]) rest)
      | _ => Ok acc ts
      end
  end.
Definition parse_dimension_declaration (ts : list token) : res stmt :=
  match ts with
  | TIdent name :: r =>
      if starts_double_underscore name then Err DoubleUnderscoreTypeNamesReserved
      else bind (dimension_eq_loop (S (length r)) [] r) (fun ds rest => Ok (StDimension name ds) rest)
  | _ => Err ExpectedIdentifierAfterDimension
  end.

(* Parser::accepts_prefix, Parser::list_of_aliases (after `(`) *)
Definition accepts_prefix (ts : list token) : res (option accepts) :=
  match ts with
  | TColon :: TKw KLong :: r => Ok (Some AcLong) r
  | TColon :: TKw KShort :: r => Ok (Some AcShort) r
  | TColon :: TKw KBoth :: r => Ok (Some AcBoth) r
  | TColon :: TKw KNone :: r => Ok (Some AcNone) r
  | TColon :: _ => Err UnknownAliasAnnotation
  | _ => Ok None ts
  end.
Definition alias_entry (ts : list token) : res (str * option accepts) :=
  match ts with
  | TIdent name :: r => bind (accepts_prefix r) (fun a rest => Ok (name, a) rest)
  | _ => Err ExpectedIdentifier
  end.
Fixpoint aliases_loop (n : nat) (acc : list (str * option accepts)) (ts : list token)
  : res (list (str * option accepts)) :=
  match n with
  | O => OutOfFuel
  | S n =>
      match ts with
      | TComma :: r => bind (alias_entry r) (fun a rest => aliases_loop n (acc ++ [a]) rest)
      | TRParen :: r => Ok acc r
      | _ => Err MissingClosingParen
      end
  end.
Definition list_of_aliases (ts : list token) : res (list (str * option accepts)) :=
  match ts with
  | TRParen :: r => Ok [] r
  | _ => bind (alias_entry ts) (fun a rest => aliases_loop (S (length rest)) [a] rest)
  end.

Definition w_metric_prefixes : str := [109;101;116;114;105;99;95;112;114;101;102;105;120;101;115].
Definition w_binary_prefixes : str := [98;105;110;97;114;121;95;112;114;101;102;105;120;101;115].
Definition w_abbreviation : str := [97;98;98;114;101;118;105;97;116;105;111;110].
Definition w_aliases : str := [97;108;105;97;115;101;115].
Definition w_url : str := [117;114;108].
Definition w_name : str := [110;97;109;101].
Definition w_description : str := [100;101;115;99;114;105;112;116;105;111;110].
Definition w_example : str := [101;120;97;109;112;108;101].
Definition seq (a b : str) : bool := if list_eq_dec N.eq_dec a b then true else false.

(* one decorator, after `@` *)
Definition parse_decorator (ts : list token) : res decorator :=
  match ts with
  | TIdent w :: r =>
      if seq w w_metric_prefixes then Ok DMetricPrefixes r
      else if seq w w_binary_prefixes then Ok DBinaryPrefixes r
      else if seq w w_abbreviation then Ok DAbbreviation r
      else if seq w w_aliases then
        match r with
        | TLParen :: r1 => bind (list_of_aliases r1) (fun l rest => Ok (DAliases l) rest)
        | _ => Err ExpectedLeftParenAfterDecorator
        end
      else if seq w w_url || seq w w_name || seq w w_description then
        match r with
        | TLParen :: TString lex :: TRParen :: r1 =>
            let c := strip_and_escape lex in
            Ok (if seq w w_url then DUrl c else if seq w w_name then DName c else DDescription c) r1
        | TLParen :: TString _ :: _ => Err MissingClosingParen
        | TLParen :: _ => Err ExpectedString
        | _ => Err ExpectedLeftParenAfterDecorator
        end
      else if seq w w_example then
        match r with
        | TLParen :: TString code :: TComma :: TString d :: TRParen :: r1 =>
            Ok (DExample (strip_and_escape code) (Some (strip_and_escape d))) r1
        | TLParen :: TString _ :: TComma :: TString _ :: _ => Err MissingClosingParen
        | TLParen :: TString _ :: TComma :: _ => Err ExpectedString
        | TLParen :: TString code :: TRParen :: r1 => Ok (DExample (strip_and_escape code) None) r1
        | TLParen :: TString _ :: _ => Err MissingClosingParen
        | TLParen :: _ => Err ExpectedString
        | _ => Err ExpectedLeftParenAfterDecorator
        end
      else Err UnknownDecorator
  | _ => Err ExpectedDecoratorName
  end.

(* Parser::is_end_of_statement *)
Definition is_end_of_statement (ts : list token) : bool :=
  match ts with [] | TNewline :: _ | TSemicolon :: _ => true | _ => false end.

(* Parser::parse_unit_declaration (after `unit`) *)
Definition parse_unit_declaration (decos : list decorator) (ts : list token) : res stmt :=
  match ts with
  | TIdent name :: r =>
      let ann :=
        match r with
        | TColon :: r1 => bind (dimension_expression r1) (fun d rest => Ok (Some d) rest)
        | _ => Ok None r
        end in
      bind ann (fun d rest =>
        if contains_examples decos then Err ExampleUsedOnUnsuitableKind
        else
          match rest with
          | TEqual :: rest1 =>
              bind (expression (skip_empty_lines rest1)) (fun e rest2 =>
                Ok (StUnit name (option_map TAExp d) (Some e) decos) rest2)
          | _ =>
              match d with
              | Some _ => Ok (StUnit name (option_map TAExp d) None decos) rest
              | None =>
                  if is_end_of_statement rest then Ok (StUnit name None None decos) rest
                  else Err ExpectedColonOrEqualAfterUnitIdentifier
              end
          end)
  | _ => Err ExpectedIdentifierAfterUnit
  end.

(* Parser::parse_use (after `use`) *)
Fixpoint use_loop (n : nat) (acc : list str) (ts : list token) : res (list str) :=
  match n with
  | O => OutOfFuel
  | S n =>
      match ts with
      | TDoubleColon :: TIdent m :: r => use_loop n (acc ++ [m]) r
      | TDoubleColon :: _ => Err ExpectedModuleNameAfterDoubleColon
      | _ => Ok acc ts
      end
  end.
Definition parse_use (ts : list token) : res stmt :=
  match ts with
  | TIdent m :: r => bind (use_loop (S (length r)) [m] r) (fun p rest => Ok (StUse p) rest)
  | _ => Err ExpectedModulePathAfterUse
  end.

(* Parser::parse_struct (after `struct`) *)
Fixpoint struct_fields_loop (n : nat) (acc : list (str * tann)) (ts : list token) : res (list (str * tann)) :=
  match n with
  | O => OutOfFuel
  | S n =>
      match ts with
      | TRCurly :: r => Ok acc r
      | _ =>
          match skip_empty_lines ts with
          | TIdent f :: r =>
              match skip_empty_lines r with
              | TColon :: r1 =>
                  bind (type_annotation (skip_empty_lines r1)) (fun a rest =>
                    match skip_empty_lines rest with
                    | TComma :: r2 => struct_fields_loop n (acc ++ [(f, a)]) (skip_empty_lines r2)
                    | TRCurly :: r2 => struct_fields_loop n (acc ++ [(f, a)]) (TRCurly :: r2)
                    | _ => Err ExpectedCommaOrRightCurlyInStructFieldList
                    end)
              | _ => Err ExpectedColonAfterFieldName
              end
          | _ => Err ExpectedFieldNameInStruct
          end
      end
  end.
Definition parse_struct (ts : list token) : res stmt :=
  match ts with
  | TIdent name :: r =>
      bind (type_parameters r) (fun tps rest =>
        match rest with
        | TLCurly :: rest1 =>
            bind (struct_fields_loop (S (length rest1)) [] (skip_empty_lines rest1)) (fun fs rest2 =>
              Ok (StStruct name tps fs) rest2)
        | _ => Err ExpectedLeftCurlyAfterStructName
        end)
  | _ => Err ExpectedIdentifier
  end.

(* Parser::statement with the decorator stack `decos`; `n` bounds the chain of decorators *)
Fixpoint statement_n (n : nat) (decos : list decorator) (ts : list token) : res stmt :=
  match n with
  | O => OutOfFuel
  | S n =>
      let decorated_ok :=
        match decos, ts with
        | [], _ => true
        | _, (TAt :: _ | TKw KUnit :: _ | TKw KLet :: _ | TKw KFn :: _) => true
        | _, _ => false
        end in
      if negb decorated_ok then Err DecoratorUsedOnUnsuitableKind
      else
        match ts with
        | TKw KLet :: r => bind (parse_variable true decos r) (fun v rest => Ok (StLet v) rest)
        | TKw KFn :: r => parse_function_declaration decos r
        | TKw KDimension :: r => parse_dimension_declaration r
        | TAt :: r => bind (parse_decorator r) (fun d rest => statement_n n (decos ++ [d]) (skip_empty_lines rest))
        | TKw KUnit :: r => parse_unit_declaration decos r
        | TKw KUse :: r => parse_use r
        | TKw KStruct :: r => parse_struct r
        | TKw k :: r =>
            if is_procedure k then parse_procedure k r
            else bind (expression ts) (fun e rest => Ok (StExpr e) rest)
        | _ => bind (expression ts) (fun e rest => Ok (StExpr e) rest)
        end
  end.
Definition statement (ts : list token) : res stmt := statement_n (S (length ts)) [] ts.

Definition last_is_rparen (consumed : list token) : bool :=
  match rev consumed with TRParen :: _ => true | _ => false end.

Fixpoint parse_loop (n : nat) (acc : list stmt) (ts : list token) : res (list stmt) :=
  match n with
  | O => OutOfFuel
  | S n =>
      match ts with
      | [] => Ok acc []
      | _ =>
          match statement ts with
          | Ok e rest =>
              match rest with
              | TNewline :: _ => parse_loop n (acc ++ [e]) (skip_empty_lines rest)
              | TSemicolon :: r => parse_loop n (acc ++ [e]) (skip_empty_lines r)
              | [] => Ok (acc ++ [e]) []
              | TEqual :: _ =>
                  (* the token before `=` decides between the two messages *)
                  if last_is_rparen (firstn (length ts - length rest) ts)
                  then Err TrailingEqualSignFunction else Err TrailingEqualSign
              | _ => Err TrailingCharacters
              end
          | Err e => Err e
          | OutOfFuel => OutOfFuel
          | Unsupported => Unsupported
          end
      end
  end.

Definition parse (ts : list token) : res (list stmt) :=
  parse_loop (S (length ts)) [] (skip_empty_lines ts).
