(* C10 — type annotations and dimension expressions: every well-formed tree of the documented
   grammar is read back by the model of Parser::type_annotation / dimension_expression as the
   type it denotes. *)
From Coq Require Import List NArith ZArith Bool Arith Lia.
From NV Require Import Syntax.Token Syntax.Ast Syntax.StmtAst Syntax.StrEsc Syntax.Parser Syntax.TypeGrammar.
Import ListNotations.
Local Open Scope nat_scope.
Local Arguments Nat.leb : simpl never.

Ltac napp := repeat (rewrite <- app_assoc || (progress (cbn [app]))).
Ltac wfs :=
  repeat match goal with
         | H : _ && _ = true |- _ => apply andb_prop in H; destruct H
         | H : (_ <=? _) = true |- _ => apply Nat.leb_le in H
         | H : negb _ = true |- _ => apply negb_true_iff in H
         end.

(* ---- exponents *)
Lemma dim_exponent_ok : forall x e, eval_sxp x = Some e ->
  forall rest n, S (length (pr_sxp x ++ rest)) <= n -> dimension_exponent_n n (pr_sxp x ++ rest) = Ok e rest.
Proof.
  induction x; intros e H rest n Hn; (destruct n; [simpl in Hn; lia|]); cbn [pr_sxp eval_sxp] in *.
  - cbn [app dimension_exponent_n].
    destruct (match remove_underscores lexeme with [] => false | _ => all_digits (remove_underscores lexeme) end) eqn:D;
      [|discriminate]. simpl in H.
    destruct (Z.leb (decimal_value (remove_underscores lexeme)) i128_max) eqn:Z; [|discriminate].
    inversion H; subst. cbn [negb]. reflexivity.
  - destruct (eval_sxp x) as [ex|] eqn:Ex; [|discriminate]. inversion H; subst.
    cbn [app dimension_exponent_n]. rewrite (IHx ex eq_refl rest n); [reflexivity|simpl in Hn; lia].
  - cbn [app dimension_exponent_n]. napp.
    rewrite (IHx e H (TRParen :: rest) n); [reflexivity|].
    rewrite !app_length in *. simpl in *. rewrite app_length in Hn. simpl in Hn. lia.
  - destruct (eval_sxp x1) as [e1|] eqn:E1; [|discriminate].
    destruct (eval_sxp x2) as [e2|] eqn:E2; [|discriminate].
    destruct (exp_is_zero e2) eqn:Zr; [discriminate|].
    destruct (exp_fits (exp_div e1 e2)) eqn:Ft; [|discriminate]. inversion H; subst.
    cbn [app dimension_exponent_n]. napp.
    rewrite (IHx1 e1 eq_refl (TDivide :: pr_sxp x2 ++ TRParen :: rest) n).
    + cbn [bind]. rewrite (IHx2 e2 eq_refl (TRParen :: rest) n).
      * cbn [bind]. rewrite Zr, Ft. reflexivity.
      * revert Hn. clear. rewrite !app_length. simpl. rewrite !app_length. simpl. rewrite !app_length. simpl. intros; lia.
    + revert Hn. clear. rewrite !app_length. simpl. rewrite !app_length. simpl. rewrite !app_length. simpl. intros; lia.
Qed.

Lemma exponent_top : forall x e rest, eval_sxp x = Some e ->
  dimension_exponent (pr_sxp x ++ rest) = Ok e rest.
Proof. intros. unfold dimension_exponent. apply dim_exponent_ok; auto. Qed.

(* ---- sizes and nesting depth *)
Fixpoint ysize (t : sty) : nat :=
  match t with
  | YIdent _ (Some l) => S (list_sum (map ysize l))
  | YParen d | YPow d _ | YUPow d _ | YList d => S (ysize d)
  | YMul a b | YDiv a b => S (ysize a + ysize b)
  | YFn ps r => S (list_sum (map ysize ps) + ysize r)
  | _ => 1
  end.
Fixpoint ydepth (t : sty) : nat :=
  match t with
  | YIdent _ (Some l) => S (list_max (map ydepth l))
  | YParen d | YList d => S (ydepth d)
  | YPow d _ | YUPow d _ => ydepth d
  | YMul a b | YDiv a b => Nat.max (ydepth a) (ydepth b)
  | YFn ps r => S (Nat.max (list_max (map ydepth ps)) (ydepth r))
  | _ => 0
  end.

Lemma ysize_in : forall (a : sty) l, In a l -> ysize a <= list_sum (map ysize l).
Proof. induction l; simpl; intros H; [tauto|]. destruct H as [->|H]; [lia|]. specialize (IHl H). lia. Qed.
Lemma ydepth_in : forall (a : sty) l, In a l -> ydepth a <= list_max (map ydepth l).
Proof. induction l; simpl; intros H; [tauto|]. destruct H as [->|H]; [lia|]. specialize (IHl H). lia. Qed.

(* ---- what may follow *)
Definition h_lt (rest : list token) : Prop := match rest with TLessThan :: _ => False | _ => True end.
Definition h_pow (rest : list token) : Prop :=
  match rest with TPower :: _ | TUnicodeExponent _ :: _ | TLessThan :: _ => False | _ => True end.
Definition tfollow (rest : list token) : bool :=
  match rest with
  | TPower :: _ | TUnicodeExponent _ :: _ | TLessThan :: _ | TMultiply :: _ | TDivide :: _
  | TGreaterOrEqual :: _ => false
  | _ => true
  end.

Lemma tfollow_pow : forall rest, tfollow rest = true -> h_pow rest.
Proof. intros [|t r] H; [exact I|]. destruct t; try exact I; discriminate. Qed.

(* the functions at nesting depth d *)
Definition TK (d : nat) := fun ts => type_annotation_d d ts.
Definition DK (d : nat) := fun ts => dimension_expression_d d ts.
Definition DPr (d : nat) := dimension_primary (TK d) (DK d).
Definition DPw (d : nat) := dimension_power (TK d) (DK d).
Definition DF (d : nat) := dimension_factor (TK d) (DK d).
Definition TB (d : nat) := type_annotation_body (TK d) (DK d).

Lemma TK_S : forall d ts, TK (S d) ts = TB d ts.
Proof. reflexivity. Qed.
Lemma DK_S : forall d ts, DK (S d) ts = DF d ts.
Proof. reflexivity. Qed.

Definition dfirst (t : token) : bool := match t with TNumber _ | TIdent _ | TLParen => true | _ => false end.
Lemma pr_ty_first : forall t, wf_ty t = true -> 1 <= ylvl t -> exists tok r, pr_ty t = tok :: r /\ dfirst tok = true.
Proof.
  induction t; intros W L; simpl in L; try lia; simpl in W; wfs.
  - eexists; eexists; split; reflexivity.
  - destruct args; eexists; eexists; split; reflexivity.
  - eexists; eexists; split; reflexivity.
  - destruct (IHt H ltac:(lia)) as (tok & r & E & F). cbn [pr_ty]. rewrite E. eexists; eexists; split; [reflexivity|exact F].
  - destruct (IHt H ltac:(lia)) as (tok & r & E & F). cbn [pr_ty]. rewrite E. eexists; eexists; split; [reflexivity|exact F].
  - destruct (IHt1 H ltac:(lia)) as (tok & r & E & F). cbn [pr_ty]. rewrite E. eexists; eexists; split; [reflexivity|exact F].
  - destruct (IHt1 H ltac:(lia)) as (tok & r & E & F). cbn [pr_ty]. rewrite E. eexists; eexists; split; [reflexivity|exact F].
Qed.

Lemma pr_ty_nonempty : forall t, 1 <= length (pr_ty t).
Proof.
  induction t; cbn [pr_ty]; try (simpl; lia); try (rewrite app_length; simpl; lia).
  destruct args; simpl; lia.
Qed.

Lemma ty_ann_exp : forall t, 1 <= ylvl t -> ty_ann t = TAExp (ty_exp t).
Proof. destruct t; simpl; intros L; try lia; reflexivity. Qed.

(* ---- comma separated lists of annotations *)
Fixpoint ytail (l : list sty) : list token :=
  match l with [] => [] | a :: r => TComma :: pr_ty a ++ ytail r end.
Lemma pr_tys_cons : forall a r, pr_tys (a :: r) = pr_ty a ++ ytail r.
Proof.
  intros a r. revert a. induction r as [|b r IH]; intros a; simpl; [reflexivity|].
  f_equal. f_equal. apply (IH b).
Qed.
Lemma pr_ident_args : forall n l, pr_ty (YIdent n (Some l)) = TIdent n :: TLessThan :: pr_tys l ++ [TGreaterThan].
Proof. reflexivity. Qed.
Lemma pr_fn : forall ps r,
  pr_ty (YFn ps r) = TKw KCapitalFn :: TLBracket :: TLParen :: pr_tys ps ++ TRParen :: TArrow :: pr_ty r ++ [TRBracket].
Proof. reflexivity. Qed.

Lemma type_args_loop_ok : forall d l rest acc n,
  (forall a, In a l -> forall rest', tfollow rest' = true -> TK d (pr_ty a ++ rest') = Ok (ty_ann a) rest') ->
  S (length (ytail l ++ TGreaterThan :: rest)) <= n ->
  type_args_loop (TK d) n acc (ytail l ++ TGreaterThan :: rest) = Ok (acc ++ map ty_ann l) rest.
Proof.
  induction l as [|a r IH]; intros rest acc n HA Hn; (destruct n; [simpl in Hn; lia|]).
  - simpl. rewrite app_nil_r. reflexivity.
  - cbn [ytail]. napp. cbn [type_args_loop].
    rewrite (HA a (or_introl eq_refl)).
    + cbn [bind]. rewrite IH.
      * rewrite <- app_assoc. reflexivity.
      * intros b Hb. apply HA. right. exact Hb.
      * cbn [ytail] in Hn. revert Hn. rewrite !app_length. cbn [length]. rewrite !app_length. pose proof (pr_ty_nonempty a). intros; lia.
    + destruct r; reflexivity.
Qed.

Lemma fn_type_params_loop_ok : forall d l rest acc n,
  (forall a, In a l -> forall rest', tfollow rest' = true -> TK d (pr_ty a ++ rest') = Ok (ty_ann a) rest') ->
  S (length (ytail l ++ TRParen :: rest)) <= n ->
  fn_type_params_loop (TK d) n acc (ytail l ++ TRParen :: rest) = Ok (acc ++ map ty_ann l) (TRParen :: rest).
Proof.
  induction l as [|a r IH]; intros rest acc n HA Hn; (destruct n; [simpl in Hn; lia|]).
  - simpl. rewrite app_nil_r. reflexivity.
  - cbn [ytail]. napp. cbn [fn_type_params_loop].
    rewrite (HA a (or_introl eq_refl)).
    + cbn [bind]. rewrite IH.
      * rewrite <- app_assoc. reflexivity.
      * intros b Hb. apply HA. right. exact Hb.
      * cbn [ytail] in Hn. revert Hn. rewrite !app_length. cbn [length]. rewrite !app_length. pose proof (pr_ty_nonempty a). intros; lia.
    + destruct r; reflexivity.
Qed.

Definition afirst (t : token) : bool :=
  match t with
  | TNumber _ | TIdent _ | TLParen | TKw KBool | TKw KString | TKw KDateTime | TKw KCapitalFn | TKw KList => true
  | _ => false
  end.
Lemma pr_ty_first_any : forall t, wf_ty t = true -> exists tok r, pr_ty t = tok :: r /\ afirst tok = true.
Proof.
  intros t W. destruct (Nat.le_gt_cases 1 (ylvl t)) as [L|L].
  - destruct (pr_ty_first t W L) as (tok & r & E & F). exists tok, r. split; [exact E|].
    destruct tok; try discriminate; reflexivity.
  - destruct t; simpl in L; try lia; eexists; eexists; split; reflexivity.
Qed.

Definition GoodTy (t : sty) : Prop :=
  wf_ty t = true -> forall d, ydepth t <= d ->
  (3 <= ylvl t -> forall rest, h_lt rest -> DPr d (pr_ty t ++ rest) = Ok (ty_exp t) rest)
  /\ (2 <= ylvl t -> forall rest, h_pow rest -> DPw d (pr_ty t ++ rest) = Ok (ty_exp t) rest)
  /\ (1 <= ylvl t -> forall rest, h_pow rest ->
        exists m, S (length rest) <= m /\
                  DF d (pr_ty t ++ rest) = dimension_factor_loop (TK d) (DK d) m (ty_exp t) rest)
  /\ (forall rest, tfollow rest = true -> TB d (pr_ty t ++ rest) = Ok (ty_ann t) rest).

Lemma h_pow_lt : forall rest, h_pow rest -> h_lt rest.
Proof. intros [|t r] H; [exact I|]. destruct t; try exact I; contradiction. Qed.

Lemma pw_of_pr : forall d ts e rest, DPr d ts = Ok e rest -> h_pow rest -> DPw d ts = Ok e rest.
Proof.
  intros d ts e rest H Hp. unfold DPw, dimension_power. unfold DPr in H. rewrite H. cbn [bind].
  destruct rest as [|t r]; [reflexivity|]. destruct t; try reflexivity; contradiction.
Qed.

Lemma df_of_pw : forall d ts e rest, DPw d ts = Ok e rest ->
  DF d ts = dimension_factor_loop (TK d) (DK d) (S (length rest)) e rest.
Proof. intros d ts e rest H. unfold DF, dimension_factor. unfold DPw in H. rewrite H. reflexivity. Qed.

Lemma loop_exit_ty : forall d m acc rest, 1 <= m -> tfollow rest = true ->
  dimension_factor_loop (TK d) (DK d) m acc rest = Ok acc rest.
Proof.
  intros d m acc rest Hm F. destruct m; [lia|]. cbn [dimension_factor_loop].
  destruct rest as [|t r]; [reflexivity|]. destruct t; try reflexivity; discriminate.
Qed.

Lemma tb_of_df : forall d t rest, wf_ty t = true -> 1 <= ylvl t ->
  DF d (pr_ty t ++ rest) = Ok (ty_exp t) rest -> TB d (pr_ty t ++ rest) = Ok (ty_ann t) rest.
Proof.
  intros d t rest W L H. destruct (pr_ty_first t W L) as (tok & r & E & F).
  unfold TB, type_annotation_body. unfold DF in H. rewrite E in *. cbn [app] in *.
  rewrite (ty_ann_exp t L).
  destruct tok; try discriminate; rewrite H; reflexivity.
Qed.

(* closing the four statements downwards from the own level *)
Lemma close_ty : forall d t, wf_ty t = true -> 1 <= ylvl t ->
  (3 <= ylvl t -> forall rest, h_lt rest -> DPr d (pr_ty t ++ rest) = Ok (ty_exp t) rest) ->
  (2 <= ylvl t -> ylvl t < 3 -> forall rest, h_pow rest -> DPw d (pr_ty t ++ rest) = Ok (ty_exp t) rest) ->
  (ylvl t < 2 -> forall rest, h_pow rest ->
        exists m, S (length rest) <= m /\
                  DF d (pr_ty t ++ rest) = dimension_factor_loop (TK d) (DK d) m (ty_exp t) rest) ->
  (3 <= ylvl t -> forall rest, h_lt rest -> DPr d (pr_ty t ++ rest) = Ok (ty_exp t) rest)
  /\ (2 <= ylvl t -> forall rest, h_pow rest -> DPw d (pr_ty t ++ rest) = Ok (ty_exp t) rest)
  /\ (1 <= ylvl t -> forall rest, h_pow rest ->
        exists m, S (length rest) <= m /\
                  DF d (pr_ty t ++ rest) = dimension_factor_loop (TK d) (DK d) m (ty_exp t) rest)
  /\ (forall rest, tfollow rest = true -> TB d (pr_ty t ++ rest) = Ok (ty_ann t) rest).
Proof.
  intros d t W L1 H3 H2 H1.
  assert (P2 : 2 <= ylvl t -> forall rest, h_pow rest -> DPw d (pr_ty t ++ rest) = Ok (ty_exp t) rest).
  { intros L rest Hp. destruct (Nat.le_gt_cases 3 (ylvl t)) as [L3|L3].
    - apply pw_of_pr; [apply H3; [exact L3|apply h_pow_lt; exact Hp]|exact Hp].
    - apply H2; auto. }
  assert (P1 : 1 <= ylvl t -> forall rest, h_pow rest ->
        exists m, S (length rest) <= m /\
                  DF d (pr_ty t ++ rest) = dimension_factor_loop (TK d) (DK d) m (ty_exp t) rest).
  { intros L rest Hp. destruct (Nat.le_gt_cases 2 (ylvl t)) as [L2|L2].
    - exists (S (length rest)). split; [lia|]. apply df_of_pw. apply P2; auto.
    - apply H1; auto. }
  repeat split; auto.
  intros rest F. apply tb_of_df; auto.
  destruct (P1 L1 rest (tfollow_pow _ F)) as (m & Hm & E). rewrite E. apply loop_exit_ty; [lia|exact F].
Qed.

Ltac lvl0 :=
  split; [intros L; exfalso; cbn [ylvl] in L; lia
        |split; [intros L; exfalso; cbn [ylvl] in L; lia
                |split; [intros L; exfalso; cbn [ylvl] in L; lia|]]].

Theorem good_ty : forall n t, ysize t < n -> GoodTy t.
Proof.
  induction n; intros t Hs; [lia|].
  destruct t; intros W d Hd; pose proof W as W0; simpl in W, Hs, Hd; wfs.
  - (* YUnity *)
    apply close_ty; [exact W0|cbn [ylvl]; lia|..]; try (cbn [ylvl]; lia). intros _ rest Hl. reflexivity.
  - (* YIdent *)
    destruct args as [l|].
    + destruct d as [|d]; [lia|].
      apply close_ty; [exact W0|cbn [ylvl]; lia|..]; try (cbn [ylvl]; lia). intros _ rest Hl.
      assert (HA : forall a, In a l -> forall rest', tfollow rest' = true ->
                    TK (S d) (pr_ty a ++ rest') = Ok (ty_ann a) rest').
      { intros a Ha rest' F. rewrite TK_S.
        assert (Wa : wf_ty a = true) by (eapply forallb_forall in H0; eauto).
        pose proof (ysize_in a l Ha). pose proof (ydepth_in a l Ha).
        destruct (IHn a ltac:(lia) Wa d ltac:(lia)) as (_ & _ & _ & G). apply G. exact F. }
      rewrite pr_ident_args. napp. unfold DPr, dimension_primary. rewrite H.
      destruct l as [|a r].
      * reflexivity.
      * rewrite pr_tys_cons. napp.
        assert (Wa : wf_ty a = true) by (simpl in H0; apply andb_prop in H0; tauto).
        destruct (pr_ty_first_any a Wa) as (tok & ra & E & F).
        assert (Tk : TK (S d) (pr_ty a ++ ytail r ++ TGreaterThan :: rest) = Ok (ty_ann a) (ytail r ++ TGreaterThan :: rest)).
        { apply HA; [left; reflexivity|]. destruct r; reflexivity. }
        rewrite E in *. cbn [app] in *.
        assert (Red : forall X, (match tok :: X with
                                 | TGreaterThan :: r1 => Ok (TEIdent name []) r1
                                 | TGreaterOrEqual :: _ => Unsupported
                                 | _ => bind (TK (S d) (tok :: X)) (fun a0 rest0 =>
                                          bind (type_args_loop (TK (S d)) (S (length rest0)) [a0] rest0)
                                               (fun args rest1 => Ok (TEIdent name args) rest1))
                                 end) = bind (TK (S d) (tok :: X)) (fun a0 rest0 =>
                                          bind (type_args_loop (TK (S d)) (S (length rest0)) [a0] rest0)
                                               (fun args rest1 => Ok (TEIdent name args) rest1))).
        { intros X. destruct tok; try discriminate; reflexivity. }
        rewrite Red. rewrite Tk. cbn [bind].
        rewrite type_args_loop_ok; [reflexivity| |lia].
        intros b Hb. apply HA. right. exact Hb.
    + apply close_ty; [exact W0|cbn [ylvl]; lia|..]; try (cbn [ylvl]; lia). intros _ rest Hl.
      unfold DPr, dimension_primary. cbn [pr_ty app]. rewrite H.
      destruct rest as [|t r]; [reflexivity|]. destruct t; try reflexivity. contradiction.
  - (* YParen *)
    destruct d as [|d]; [lia|].
    destruct (IHn t ltac:(lia) H d ltac:(lia)) as (_ & _ & G3 & _).
    apply close_ty; [exact W0|cbn [ylvl]; lia|..]; try (cbn [ylvl]; lia). intros _ rest Hl.
    cbn [pr_ty ty_exp]. napp. unfold DPr, dimension_primary.
    change (DK (S d) (pr_ty t ++ TRParen :: rest)) with (DF d (pr_ty t ++ TRParen :: rest)).
    destruct (G3 ltac:(lia) (TRParen :: rest) I) as (m & Hm & E). rewrite E.
    rewrite loop_exit_ty; [reflexivity|lia|reflexivity].
  - (* YPow *)
    destruct (IHn t ltac:(lia) H d ltac:(lia)) as (G1 & _).
    destruct (eval_sxp x) as [e|] eqn:Ex; [|discriminate].
    apply close_ty; [exact W0|cbn [ylvl]; lia|..]; try (cbn [ylvl]; lia). intros _ _ rest Hp.
    cbn [pr_ty ty_exp]. napp. unfold DPw, dimension_power.
    change (dimension_primary (TK d) (DK d)) with (DPr d).
    rewrite (G1 ltac:(lia) (TPower :: pr_sxp x ++ rest) I). cbn [bind].
    rewrite (exponent_top x e rest Ex). rewrite Ex. reflexivity.
  - (* YUPow *)
    destruct (IHn t ltac:(lia) H d ltac:(lia)) as (G1 & _).
    apply close_ty; [exact W0|cbn [ylvl]; lia|..]; try (cbn [ylvl]; lia). intros _ _ rest Hp.
    cbn [pr_ty ty_exp]. napp. unfold DPw, dimension_power.
    change (dimension_primary (TK d) (DK d)) with (DPr d).
    rewrite (G1 ltac:(lia) (TUnicodeExponent lexeme :: rest) I). reflexivity.
  - (* YMul *)
    destruct (IHn t1 ltac:(lia) H d ltac:(lia)) as (_ & _ & Ga & _).
    destruct (IHn t2 ltac:(lia) H2 d ltac:(lia)) as (_ & Gb & _).
    apply close_ty; [exact W0|cbn [ylvl]; lia|..]; try (cbn [ylvl]; lia). intros _ rest Hp.
    cbn [pr_ty ty_exp]. napp.
    destruct (Ga ltac:(lia) (TMultiply :: pr_ty t2 ++ rest) I) as (m & Hm & E). rewrite E.
    destruct m as [|m]; [lia|]. cbn [dimension_factor_loop].
    change (dimension_power (TK d) (DK d)) with (DPw d). rewrite (Gb ltac:(lia) rest Hp). cbn [bind].
    exists m. split; [|reflexivity]. simpl in Hm. rewrite app_length in Hm. pose proof (pr_ty_nonempty t2). lia.
  - (* YDiv *)
    destruct (IHn t1 ltac:(lia) H d ltac:(lia)) as (_ & _ & Ga & _).
    destruct (IHn t2 ltac:(lia) H2 d ltac:(lia)) as (_ & Gb & _).
    apply close_ty; [exact W0|cbn [ylvl]; lia|..]; try (cbn [ylvl]; lia). intros _ rest Hp.
    cbn [pr_ty ty_exp]. napp.
    destruct (Ga ltac:(lia) (TDivide :: pr_ty t2 ++ rest) I) as (m & Hm & E). rewrite E.
    destruct m as [|m]; [lia|]. cbn [dimension_factor_loop].
    change (dimension_power (TK d) (DK d)) with (DPw d). rewrite (Gb ltac:(lia) rest Hp). cbn [bind].
    exists m. split; [|reflexivity]. simpl in Hm. rewrite app_length in Hm. pose proof (pr_ty_nonempty t2). lia.
  - lvl0. intros rest F. reflexivity.
  - lvl0. intros rest F. reflexivity.
  - lvl0. intros rest F. reflexivity.
  - (* YFn *)
    destruct d as [|d]; [lia|].
    lvl0. intros rest F.
    assert (HA : forall a, In a params -> forall rest', tfollow rest' = true ->
                  TK (S d) (pr_ty a ++ rest') = Ok (ty_ann a) rest').
    { intros a Ha rest' F'. rewrite TK_S.
      assert (Wa : wf_ty a = true) by (eapply forallb_forall in H; eauto).
      pose proof (ysize_in a params Ha). pose proof (ydepth_in a params Ha).
      destruct (IHn a ltac:(lia) Wa d ltac:(lia)) as (_ & _ & _ & G). apply G. exact F'. }
    assert (HR : TK (S d) (pr_ty t ++ TRBracket :: rest) = Ok (ty_ann t) (TRBracket :: rest)).
    { rewrite TK_S. destruct (IHn t ltac:(lia) H0 d ltac:(lia)) as (_ & _ & _ & G). apply G. reflexivity. }
    rewrite pr_fn. napp. unfold TB, type_annotation_body. cbn [ty_ann].
    destruct params as [|a r].
    + cbn [pr_tys app bind map]. rewrite HR. reflexivity.
    + rewrite pr_tys_cons. napp.
      assert (Wa : wf_ty a = true) by (simpl in H; apply andb_prop in H; tauto).
      destruct (pr_ty_first_any a Wa) as (tok & ra & E & Fa).
      assert (Tk : TK (S d) (pr_ty a ++ ytail r ++ TRParen :: TArrow :: pr_ty t ++ TRBracket :: rest)
                   = Ok (ty_ann a) (ytail r ++ TRParen :: TArrow :: pr_ty t ++ TRBracket :: rest)).
      { apply HA; [left; reflexivity|]. destruct r; reflexivity. }
      rewrite E in *. cbn [app] in *.
      assert (Red : forall X, (match tok :: X with
                               | TRParen :: _ => Ok [] (tok :: X)
                               | _ => bind (TK (S d) (tok :: X)) (fun a0 rest0 =>
                                        fn_type_params_loop (TK (S d)) (S (length rest0)) [a0] rest0)
                               end) = bind (TK (S d) (tok :: X)) (fun a0 rest0 =>
                                        fn_type_params_loop (TK (S d)) (S (length rest0)) [a0] rest0)).
      { intros X. destruct tok; try discriminate; reflexivity. }
      rewrite Red. rewrite Tk. cbn [bind].
      rewrite fn_type_params_loop_ok; [|intros b Hb; apply HA; right; exact Hb|lia].
      cbn [bind]. rewrite HR. reflexivity.
  - (* YList *)
    destruct d as [|d]; [lia|].
    lvl0. intros rest F.
    cbn [pr_ty ty_ann]. napp. unfold TB, type_annotation_body.
    rewrite TK_S. destruct (IHn t ltac:(lia) W d ltac:(lia)) as (_ & _ & _ & G).
    rewrite (G (TGreaterThan :: rest) eq_refl). reflexivity.
Qed.

Lemma ydepth_le_len : forall n t, ysize t < n -> ydepth t <= length (pr_ty t).
Proof.
  induction n; intros t Hs; [lia|].
  assert (LM : forall l, (forall a, In a l -> ydepth a <= length (pr_ty a)) -> list_max (map ydepth l) <= length (pr_tys l)).
  { induction l as [|a r IH]; intros H; [simpl; lia|].
    change (list_max (map ydepth (a :: r))) with (Nat.max (ydepth a) (list_max (map ydepth r))).
    cbn [pr_tys]. rewrite app_length. pose proof (H a (or_introl eq_refl)).
    assert (list_max (map ydepth r) <= length (pr_tys r)) by (apply IH; intros b Hb; apply H; right; exact Hb).
    destruct r; simpl in *; lia. }
  destruct t; simpl in Hs; try (simpl; lia).
  - destruct args as [l|]; [|simpl; lia]. rewrite pr_ident_args. cbn [ydepth length]. rewrite app_length. cbn [length].
    assert (list_max (map ydepth l) <= length (pr_tys l)).
    { apply LM. intros a Ha. apply IHn. pose proof (ysize_in a l Ha). lia. }
    lia.
  - pose proof (IHn t ltac:(lia)). cbn [pr_ty ydepth length]. rewrite app_length. simpl. lia.
  - pose proof (IHn t ltac:(lia)). cbn [pr_ty ydepth]. rewrite app_length. simpl. lia.
  - pose proof (IHn t ltac:(lia)). cbn [pr_ty ydepth]. rewrite app_length. simpl. lia.
  - pose proof (IHn t1 ltac:(lia)). pose proof (IHn t2 ltac:(lia)). cbn [pr_ty ydepth]. rewrite app_length. simpl. lia.
  - pose proof (IHn t1 ltac:(lia)). pose proof (IHn t2 ltac:(lia)). cbn [pr_ty ydepth]. rewrite app_length. simpl. lia.
  - rewrite pr_fn. cbn [ydepth length]. rewrite app_length. cbn [length]. rewrite app_length. cbn [length].
    pose proof (IHn t ltac:(lia)).
    assert (list_max (map ydepth params) <= length (pr_tys params)).
    { apply LM. intros a Ha. apply IHn. pose proof (ysize_in a params Ha). lia. }
    lia.
  - pose proof (IHn t ltac:(lia)). cbn [pr_ty ydepth length]. rewrite app_length. simpl. lia.
Qed.

(* the two entry points of the parser *)
Theorem type_annotation_ok : forall t rest, wf_ty t = true -> tfollow rest = true ->
  type_annotation (pr_ty t ++ rest) = Ok (ty_ann t) rest.
Proof.
  intros t rest W F. unfold type_annotation.
  change (type_annotation_d (S (length (pr_ty t ++ rest))) (pr_ty t ++ rest))
    with (TB (length (pr_ty t ++ rest)) (pr_ty t ++ rest)).
  destruct (good_ty (S (ysize t)) t ltac:(lia) W (length (pr_ty t ++ rest))) as (_ & _ & _ & G).
  - pose proof (ydepth_le_len _ t (Nat.lt_succ_diag_r _)). rewrite app_length. lia.
  - apply G. exact F.
Qed.

Theorem dimension_expression_ok : forall t rest, wf_ty t = true -> 1 <= ylvl t -> tfollow rest = true ->
  dimension_expression (pr_ty t ++ rest) = Ok (ty_exp t) rest.
Proof.
  intros t rest W L F. unfold dimension_expression.
  change (dimension_expression_d (S (length (pr_ty t ++ rest))) (pr_ty t ++ rest))
    with (DF (length (pr_ty t ++ rest)) (pr_ty t ++ rest)).
  destruct (good_ty (S (ysize t)) t ltac:(lia) W (length (pr_ty t ++ rest))) as (_ & _ & G & _).
  - pose proof (ydepth_le_len _ t (Nat.lt_succ_diag_r _)). rewrite app_length. lia.
  - destruct (G L rest (tfollow_pow _ F)) as (m & Hm & E). rewrite E. apply loop_exit_ty; [lia|exact F].
Qed.
