(* C10 — model of numbat/src/tokenizer.rs (Tokenizer::scan, scan_single_token,
   consume_stream_of_digits, scientific_notation, consume_string) on code
   points.  The scope stack of the tokenizer (Curly / String scopes) is a list of
   booleans, one per open Curly scope: true = the scope was opened by a string
   (a string part that ends in an opening brace), i.e. it sits directly on a String scope (is_inside_interpolation).  The Unicode identifier classes
   XID_Start / XID_Continue are parameters of the section; `Exec.v`
   instantiates them on a listed set of characters.  No proofs here. *)
From Coq Require Import List NArith ZArith Bool.
From NV Require Import Syntax.Token Gen.OpTable.
Import ListNotations.
Local Open Scope N_scope.

Inductive lexerr :=
| UnexpectedCharacter | UnexpectedCharacterInNegativeExponent
| UnexpectedCharacterInNumberLiteral | UnexpectedCharacterInIdentifier
| ExpectedDigit | ExpectedDigitInBase | UnterminatedString
| UnexpectedScopeClosing
| UnterminatedStringInterpolation | UnexpectedCurlyInInterpolation.

Inductive lres (A : Type) := LOk (a : A) | LErr (e : lexerr) | LUnsupported | LOutOfFuel.
Arguments LOk {A}. Arguments LErr {A}. Arguments LUnsupported {A}. Arguments LOutOfFuel {A}.

Definition in_range (lo hi c : N) : bool := (lo <=? c) && (c <=? hi).
Definition is_ascii_digit (c : N) := in_range 48 57 c.
Definition is_exponent_char (c : N) := (c =? 185) || (c =? 178) || (c =? 179) || in_range 8308 8313 c.
Definition is_numerical_fraction_char (c : N) := in_range 188 190 c || in_range 8528 8542 c.
Definition is_currency_char (c : N) :=
  in_range 8352 8399 c || (c =? 163) || (c =? 165) || (c =? 36) || (c =? 3647).
Definition is_other_allowed_identifier_char (c : N) := (c =? 37) || (c =? 8240).
(* tokenizer.rs is_subscript_char: the range is re-read from the source on every run (Gen/OpTable.v) *)
Definition is_hex_digit (c : N) := is_ascii_digit c || in_range 97 102 c || in_range 65 70 c.
Definition is_octal_digit (c : N) := in_range 48 55 c.
Definition is_binary_digit (c : N) := (c =? 48) || (c =? 49).

Definition keyword_of (s : str) : option token :=
  let w (l : list N) := if list_eq_dec N.eq_dec s l then true else false in
  if w [112;101;114] then Some TPer
  else if w [116;111] then Some TTo
  else if w [108;101;116] then Some (TKw KLet)
  else if w [102;110] then Some (TKw KFn)
  else if w [119;104;101;114;101] then Some (TKw KWhere)
  else if w [97;110;100] then Some (TKw KAnd)
  else if w [100;105;109;101;110;115;105;111;110] then Some (TKw KDimension)
  else if w [117;110;105;116] then Some (TKw KUnit)
  else if w [117;115;101] then Some (TKw KUse)
  else if w [115;116;114;117;99;116] then Some (TKw KStruct)
  else if w [108;111;110;103] then Some (TKw KLong)
  else if w [115;104;111;114;116] then Some (TKw KShort)
  else if w [98;111;116;104] then Some (TKw KBoth)
  else if w [110;111;110;101] then Some (TKw KNone)
  else if w [105;102] then Some TIf
  else if w [116;104;101;110] then Some TThen
  else if w [101;108;115;101] then Some TElse
  else if w [116;114;117;101] then Some TTrue
  else if w [102;97;108;115;101] then Some TFalse
  else if w [78;97;78] then Some TNaN
  else if w [105;110;102] then Some TInf
  else if w [112;114;105;110;116] then Some (TKw KPrint)
  else if w [97;115;115;101;114;116] then Some (TKw KAssert)
  else if w [97;115;115;101;114;116;95;101;113] then Some (TKw KAssertEq)
  else if w [116;121;112;101] then Some (TKw KType)
  else if w [66;111;111;108] then Some (TKw KBool)
  else if w [83;116;114;105;110;103] then Some (TKw KString)
  else if w [68;97;116;101;84;105;109;101] then Some (TKw KDateTime)
  else if w [70;110] then Some (TKw KCapitalFn)
  else if w [76;105;115;116] then Some (TKw KList)
  else None.

Fixpoint span_while (p : N -> bool) (cs : str) : str * str :=
  match cs with
  | c :: r => if p c then let (a, b) := span_while p r in (c :: a, b) else ([], cs)
  | [] => ([], [])
  end.

Definition peek_is (p : N -> bool) (cs : str) : bool := match cs with c :: _ => p c | [] => false end.
Definition peek2_is (p : N -> bool) (cs : str) : bool := match cs with _ :: c :: _ => p c | _ => false end.

(* Tokenizer::consume_stream_of_digits; returns the consumed text and the rest *)
Definition consume_stream_of_digits (at_least_one no_leading_us no_dot_after : bool) (cs : str)
  : lres (str * str) :=
  if at_least_one && negb (peek_is is_ascii_digit cs) then LErr ExpectedDigit
  else if no_leading_us && peek_is (N.eqb 95) cs then LErr UnexpectedCharacterInNumberLiteral
  else
    let (ds, rest) := span_while (fun c => is_ascii_digit c || (c =? 95)) cs in
    if match rev ds with 95 :: _ => true | _ => false end then LErr UnexpectedCharacterInNumberLiteral
    else if no_dot_after && peek_is (N.eqb 46) rest then LErr UnexpectedCharacterInNumberLiteral
    else LOk (ds, rest).

(* Tokenizer::scientific_notation *)
Definition scientific_notation (cs : str) : lres (str * str) :=
  if peek2_is (fun c => is_ascii_digit c || (c =? 43) || (c =? 45)) cs
     && peek_is (fun c => (c =? 101) || (c =? 69)) cs
  then
    match cs with
    | e :: r =>
        let (sign, r') := match r with
                          | s :: r'' => if (s =? 43) || (s =? 45) then ([s], r'') else ([], r)
                          | [] => ([], r)
                          end in
        match consume_stream_of_digits true true true r' with
        | LOk (ds, rest) => LOk (e :: sign ++ ds, rest)
        | LErr x => LErr x | LUnsupported => LUnsupported | LOutOfFuel => LOutOfFuel
        end
    | [] => LOk ([], cs)
    end
  else LOk ([], cs).

(* Tokenizer::consume_string: returns the consumed text and the rest *)
Fixpoint consume_string (n : nat) (escaped : bool) (cs : str) : str * str :=
  match n with
  | O => ([], cs)
  | S n =>
      match cs with
      | [] => ([], cs)
      | c :: r =>
          if (c =? 92) && negb escaped then let (a, b) := consume_string n true r in (c :: a, b)
          else if (c =? 34) && negb escaped then ([], cs)
          else if (c =? 123) || (c =? 125) then
            match r with
            | c2 :: r2 => if c2 =? c then let (a, b) := consume_string n false r2 in (c :: c2 :: a, b)
                          else ([], cs)
            | [] => ([], cs)
            end
          else let (a, b) := consume_string n false r in (c :: a, b)
      end
  end.

Section Scan.
  Variables xid_start xid_continue : N -> bool.

  Definition is_identifier_start (c : N) : bool :=
    xid_start c || is_numerical_fraction_char c || is_currency_char c
    || is_other_allowed_identifier_char c || (c =? 176) || (c =? 8242) || (c =? 8243) || (c =? 95).
  Definition is_subscript_char (c : N) : bool := in_range subscript_first subscript_last c.
  Definition is_identifier_continue (c : N) : bool :=
    (xid_continue c || is_subscript_char c || is_currency_char c || is_other_allowed_identifier_char c)
    && negb (is_exponent_char c) && negb (c =? 183) && negb (c =? 8901).

  (* the number part after the first digit has been consumed *)
  Definition scan_number_tail (first : str) (cs : str) : lres (option token * str) :=
    match consume_stream_of_digits false false false cs with
    | LOk (ds1, r1) =>
        let after_int :=
          match r1 with
          | 46 :: r2 =>
              match consume_stream_of_digits false true true r2 with
              | LOk (ds2, r3) => LOk (46 :: ds2, r3)
              | LErr x => LErr x | LUnsupported => LUnsupported | LOutOfFuel => LOutOfFuel
              end
          | _ => LOk ([], r1)
          end in
        match after_int with
        | LOk (frac, r3) =>
            match scientific_notation r3 with
            | LOk (ex, r4) => LOk (Some (TNumber (first ++ ds1 ++ frac ++ ex)), r4)
            | LErr x => LErr x | LUnsupported => LUnsupported | LOutOfFuel => LOutOfFuel
            end
        | LErr x => LErr x | LUnsupported => LUnsupported | LOutOfFuel => LOutOfFuel
        end
    | LErr x => LErr x | LUnsupported => LUnsupported | LOutOfFuel => LOutOfFuel
    end.

  Definition scan_based (base : N) (is_digit : N -> bool) (prefix : str) (cs : str)
    : lres (option token * str) :=
    if negb (peek_is is_digit cs) then LErr ExpectedDigitInBase
    else
      let (ds, rest) := span_while (fun c => is_digit c || (c =? 95)) cs in
      if match rev ds with 95 :: _ => true | _ => false end
         || peek_is (fun c => is_identifier_continue c || (c =? 46)) rest
      then LErr ExpectedDigitInBase
      else LOk (Some (TIntBase base (prefix ++ ds)), rest).

  (* Tokenizer::scan_single_token after the comment skip; `depth` = the open Curly scopes (innermost
     first, true = opened inside a string), `last` = the previous token (Tokenizer::last_token).
     Returns the token (None for blanks), the rest and the new scope stack. *)
  Definition inside_interpolation (depth : list bool) : bool :=
    match depth with true :: _ => true | _ => false end.
  Definition last_ends_string (last : option token) : bool :=
    match last with Some (TString _) | Some (TInterpEnd _) | Some (TIdent _) => true | _ => false end.

  Definition scan_single_token (depth : list bool) (last : option token) (cs : str)
    : lres (option token * str * list bool) :=
    let ret (x : lres (option token * str)) :=
      match x with
      | LOk (t, r) => LOk (t, r, depth)
      | LErr e => LErr e | LUnsupported => LUnsupported | LOutOfFuel => LOutOfFuel
      end in
    let tok (t : token) (r : str) := LOk (Some t, r, depth) in
    let inside := inside_interpolation depth in
    match cs with
    | [] => LOk (None, [], depth)
    | c :: r =>
        if c =? 40 then tok TLParen r
        else if c =? 41 then tok TRParen r
        else if c =? 91 then tok TLBracket r
        else if c =? 93 then tok TRBracket r
        else if (c =? 123) && negb inside then LOk (Some TLCurly, r, false :: depth)
        else if (c =? 125) && negb inside then
          match depth with [] => LErr UnexpectedScopeClosing | _ :: d => LOk (Some TRCurly, r, d) end
        else if c =? 8804 then tok TLessOrEqual r
        else if c =? 60 then match r with 61 :: r' => tok TLessOrEqual r' | _ => tok TLessThan r end
        else if c =? 8805 then tok TGreaterOrEqual r
        else if c =? 62 then match r with 61 :: r' => tok TGreaterOrEqual r' | _ => tok TGreaterThan r end
        else if c =? 63 then tok TQuestionMark r
        else if (c =? 48) && peek_is (fun x => (x =? 120) || (x =? 111) || (x =? 98)) r then
          match r with
          | x :: r' =>
              if x =? 120 then ret (scan_based 16 is_hex_digit [c; x] r')
              else if x =? 111 then ret (scan_based 8 is_octal_digit [c; x] r')
              else ret (scan_based 2 is_binary_digit [c; x] r')
          | [] => LErr ExpectedDigitInBase
          end
        else if is_ascii_digit c then ret (scan_number_tail [c] r)
        else if c =? 46 then
          if peek_is (N.eqb 46) r && peek2_is (N.eqb 46) r then tok TEllipsis (tl (tl r))
          else if peek_is is_identifier_start r then tok TPeriod r
          else
            match consume_stream_of_digits true true true r with
            | LOk (ds, r1) =>
                match scientific_notation r1 with
                | LOk (ex, r2) => tok (TNumber (c :: ds ++ ex)) r2
                | LErr x => LErr x | LUnsupported => LUnsupported | LOutOfFuel => LOutOfFuel
                end
            | LErr x => LErr x | LUnsupported => LUnsupported | LOutOfFuel => LOutOfFuel
            end
        else if (c =? 32) || (c =? 9) || (c =? 13) then LOk (None, r, depth)
        else if c =? 10 then tok TNewline r
        else if c =? 59 then tok TSemicolon r
        else if (c =? 38) && peek_is (N.eqb 38) r then tok TLogicalAnd (tl r)
        else if (c =? 124) && peek_is (N.eqb 124) r then tok TLogicalOr (tl r)
        else if (c =? 124) && peek_is (N.eqb 62) r then tok TPostfixApply (tl r)
        else if (c =? 42) && peek_is (N.eqb 42) r then tok TPower (tl r)
        else if c =? 43 then tok TPlus r
        else if (c =? 42) || (c =? 183) || (c =? 8901) || (c =? 215) then tok TMultiply r
        else if (c =? 47) || (c =? 247) then tok TDivide r
        else if c =? 94 then tok TPower r
        else if c =? 44 then tok TComma r
        else if c =? 10869 then tok TEqualEqual r
        else if c =? 61 then match r with 61 :: r' => tok TEqualEqual r' | _ => tok TEqual r end
        else if c =? 64 then tok TAt r
        else if (c =? 8594) || (c =? 10142) then tok TArrow r
        else if (c =? 45) && peek_is (N.eqb 62) r then tok TArrow (tl r)
        else if (c =? 45) || (c =? 8722) then tok TMinus r
        else if c =? 8800 then tok TNotEqual r
        else if c =? 33 then match r with 61 :: r' => tok TNotEqual r' | _ => tok TExcl r end
        else if c =? 8315 then
          match r with
          | x :: r' => if is_exponent_char x then tok (TUnicodeExponent [c; x]) r'
                       else LErr UnexpectedCharacterInNegativeExponent
          | [] => LErr UnexpectedCharacterInNegativeExponent
          end
        else if is_exponent_char c then tok (TUnicodeExponent [c]) r
        else if (c =? 34) && inside && last_ends_string last then LErr UnterminatedStringInterpolation
        else if c =? 34 then
          let (body, rest) := consume_string (length r) false r in
          match rest with
          | 34 :: rest' => tok (TString (c :: body ++ [34])) rest'
          | 123 :: rest' => LOk (Some (TInterpStart (c :: body ++ [123])), rest', true :: depth)
          | _ => LErr UnterminatedString
          end
        else if (c =? 58) && inside then
          let (body, rest) := span_while (fun x => negb (x =? 34) && negb (x =? 125)) r in
          match rest with
          | 34 :: _ => LErr UnterminatedStringInterpolation
          | 125 :: _ => tok (TInterpSpec (c :: body)) rest
          | _ => LErr UnterminatedString
          end
        else if (c =? 125) && inside then
          let (body, rest) := consume_string (length r) false r in
          match rest with
          | 34 :: rest' => LOk (Some (TInterpEnd (c :: body ++ [34])), rest', tl depth)
          | 123 :: rest' => LOk (Some (TInterpMiddle (c :: body ++ [123])), rest', depth)
          | _ => LErr UnterminatedString
          end
        else if (c =? 123) && inside then LErr UnexpectedCurlyInInterpolation
        else if c =? 8230 then tok TEllipsis r
        else if is_identifier_start c then
          let (body, rest) := span_while is_identifier_continue r in
          if peek_is (N.eqb 46) rest && negb (peek2_is is_identifier_start rest)
          then LErr UnexpectedCharacterInIdentifier
          else
            match keyword_of (c :: body) with
            | Some k => tok k rest
            | None => tok (TIdent (c :: body)) rest
            end
        else if c =? 58 then match r with 58 :: r' => tok TDoubleColon r' | _ => tok TColon r end
        else LErr UnexpectedCharacter
    end.

  (* the `#` comment skip at the start of scan_single_token *)
  Definition skip_comment (cs : str) : str :=
    match cs with
    | 35 :: _ => snd (span_while (fun c => negb (c =? 10)) cs)
    | _ => cs
    end.

  (* Tokenizer::scan *)
  Fixpoint scan (n : nat) (depth : list bool) (last : option token) (cs : str) : lres (list token) :=
    match n with
    | O => LOutOfFuel
    | S n =>
        match cs with
        | [] => LOk []
        | _ =>
            match scan_single_token depth last (skip_comment cs) with
            | LOk (t, rest, depth') =>
                match scan n depth' (match t with Some _ => t | None => last end) rest with
                | LOk ts => LOk (match t with Some t => t :: ts | None => ts end)
                | e => e
                end
            | LErr e => LErr e
            | LUnsupported => LUnsupported
            | LOutOfFuel => LOutOfFuel
            end
        end
    end.

  Definition tokenize (cs : str) : lres (list token) := scan (S (length cs)) [] None cs.
End Scan.
