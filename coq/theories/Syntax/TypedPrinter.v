(* C15 — model of the echo of typed expressions: numbat/src/typed_ast.rs
   impl PrettyPrint for Expression, pretty_print_binop, with_parens,
   with_parens_liberal, call_syntax, is_temperature_sugar (as of the fixed tree),
   as a printer to tokens.  `ppm Plain` = Expression::pretty_print, `ppm Parens` =
   with_parens, `ppm Liberal` = with_parens_liberal.  Numbers carry their printed
   digits (the number formatter is not modelled).  Interpolated strings are not in this model.  No proofs here. *)
From Coq Require Import List NArith ZArith Bool.
From NV Require Import Syntax.Token Syntax.Ast Syntax.StrEsc Syntax.Parser Syntax.Grammar.
Import ListNotations.
Local Open Scope N_scope.

Inductive texpr :=
| XScalar (negative : bool) (digits : str)   (* a negative value only arises from a unicode exponent such as ⁻¹ *)
| XIdent (name : str)
| XUnit (printed_name : str)                 (* UnitIdentifier: long prefix name ++ full name *)
| XNeg (e : texpr)
| XFact (order_pred : nat) (e : texpr)
| XNot (e : texpr)
| XBin (op : binop) (a b : texpr)            (* BinaryOperator and BinaryOperatorForDate *)
| XCall (name : str) (args : list texpr)     (* FunctionCall *)
| XCallable (callee : texpr) (args : list texpr)
| XBool (b : bool)
| XString (s : str)
| XInterp (s0 : str) (items : list (texpr * option str * str))
    (* an interpolated string in the shape the parser builds it: the fixed text before the first
       interpolation, then for each interpolation the expression, the format specifiers (raw text
       beginning with the colon) and the fixed text after it; empty texts stand for absent parts *)
| XIf (c t e : texpr)
| XField (e : texpr) (name : str)
| XHole
| XList (es : list texpr)
| XStruct (name : str) (fields : list (str * texpr)).

Inductive pmode := Plain | Parens | Liberal.

Definition str_eqb (a b : str) : bool := if list_eq_dec N.eq_dec a b then true else false.

Definition deg_c : str := [176; 67].
Definition deg_f : str := [176; 70].
Definition n_from_celsius : str := [102; 114; 111; 109; 95; 99; 101; 108; 115; 105; 117; 115].
Definition n_from_fahrenheit : str := [102; 114; 111; 109; 95; 102; 97; 104; 114; 101; 110; 104; 101; 105; 116].
Definition n_celsius : str := [99; 101; 108; 115; 105; 117; 115].
Definition n_degree_celsius : str := [100; 101; 103; 114; 101; 101; 95; 99; 101; 108; 115; 105; 117; 115].
Definition n_fahrenheit : str := [102; 97; 104; 114; 101; 110; 104; 101; 105; 116].
Definition n_degree_fahrenheit : str := [100; 101; 103; 114; 101; 101; 95; 102; 97; 104; 114; 101; 110; 104; 101; 105; 116].

(* x °C / x °F   resp.   x -> °C / x -> °F *)
Inductive sugar := SugarFrom (unit_name : str) | SugarTo (unit_name : str).

Definition conversion_sugar (name : str) : option sugar :=
  if str_eqb name deg_c || str_eqb name n_celsius || str_eqb name n_degree_celsius then Some (SugarTo deg_c)
  else if str_eqb name deg_f || str_eqb name n_fahrenheit || str_eqb name n_degree_fahrenheit then Some (SugarTo deg_f)
  else None.
Definition call_sugar (name : str) : option sugar :=
  if str_eqb name n_from_celsius then Some (SugarFrom deg_c)
  else if str_eqb name n_from_fahrenheit then Some (SugarFrom deg_f)
  else conversion_sugar name.

Definition is_power (e : texpr) := match e with XBin Power _ _ => true | _ => false end.
Definition is_mul (e : texpr) := match e with XBin Mul _ _ => true | _ => false end.
Definition is_add (e : texpr) := match e with XBin Add _ _ => true | _ => false end.
Definition is_conv (e : texpr) := match e with XBin ConvertTo _ _ => true | _ => false end.
Definition is_if (e : texpr) := match e with XIf _ _ _ => true | _ => false end.
Definition is_two (e : texpr) := match e with XScalar false [50] => true | _ => false end.
Definition is_three (e : texpr) := match e with XScalar false [51] => true | _ => false end.

(* typed_ast.rs is_temperature_sugar *)
Definition is_sugar (e : texpr) : bool :=
  match e with
  | XCall name [_] => match call_sugar name with Some _ => true | None => false end
  | XCallable (XIdent name) [_] => match conversion_sugar name with Some _ => true | None => false end
  | _ => false
  end.

Definition sugar_tree (s : sugar) (arg : sx) : sx :=
  match s with
  | SugarFrom u => SIMul arg (SIdent u)
  | SugarTo u => SBin TArrow arg (SIdent u)
  end.

(* pretty_scalar: `-1` is the sign followed by the digits *)
(* the shapes whose echo is read back as the same tree *)
Definition fused (e : texpr) : bool :=
  match e with
  | XBin Mul (XScalar _ _) (XUnit _) | XBin Mul (XScalar _ _) (XIdent _) => true
  | _ => false
  end.

(* typed_ast.rs is_literal_chain: a literal, or literals joined by the same operator *)
Fixpoint lit_add (e : texpr) : bool :=
  match e with XScalar _ _ => true | XBin Add a b => lit_add a && lit_add b | _ => false end.
Fixpoint lit_mul (e : texpr) : bool :=
  match e with XScalar _ _ => true | XBin Mul a b => lit_mul a && lit_mul b | _ => false end.
(* a sum / product on the right is printed without parentheses only in a chain of plain literals
   (and a fused product `2 meter`, which binds tighter than the operator) *)
Definition bare_add (a b : texpr) : bool := is_add b && lit_add a && lit_add b.
Definition bare_mul (a b : texpr) : bool := is_mul b && (fused b || (lit_mul a && lit_mul b)).

Definition num_tree (neg : bool) (d : str) : sx := if neg then SNeg (SNum d) else SNum d.

Definition wrapm (m : pmode) (t : sx) : sx := match m with Plain => t | _ => SParen t end.

(* The echo as a concrete syntax tree (operands, operator tokens and the parentheses the
   printer writes); its text is `pr` of it.  One arm per arm of the Rust code. *)
Fixpoint echo_tree (m : pmode) (e : texpr) {struct e} : sx :=
  match e with
  | XScalar neg d =>
      match m with
      | Plain => num_tree neg d
      | _ => if neg then SParen (num_tree neg d) else num_tree neg d    (* with_parens: negative literal *)
      end
  | XIdent n => SIdent n
  | XUnit n => SIdent n
  | XNeg a => wrapm m (SNeg (echo_tree Parens a))
  | XFact k a => wrapm m (SFact (echo_tree Parens a) k)
  | XNot a => wrapm m (SNot (echo_tree Parens a))
  | XBin op a b =>
      let body :=
        match op with
        | ConvertTo =>
            SBin TArrow (if is_if a then echo_tree Parens a else echo_tree Plain a)
                        (if is_if b || is_conv b || is_sugar b then echo_tree Parens b else echo_tree Plain b)
        | Mul =>
            match a, b with
            | XScalar neg d, XUnit n => SIMul (num_tree neg d) (SIdent n)
            | XScalar neg d, XIdent n => SIMul (num_tree neg d) (SIdent n)
            | _, _ =>
                SBin TMultiply (if is_power a || is_mul a then echo_tree Plain a else echo_tree Liberal a)
                               (if is_power b || bare_mul a b then echo_tree Plain b else echo_tree Liberal b)
            end
        | Div =>
            SBin TDivide (if is_power a || is_mul a then echo_tree Plain a else echo_tree Liberal a)
                         (if is_power b then echo_tree Plain b else echo_tree Liberal b)
        | Add =>
            SBin TPlus (if is_power a || is_mul a || is_add a then echo_tree Plain a else echo_tree Liberal a)
                       (if is_power b || is_mul b || bare_add a b then echo_tree Plain b else echo_tree Liberal b)
        | Sub =>
            SBin TMinus (if is_power a || is_mul a then echo_tree Plain a else echo_tree Liberal a)
                        (if is_power b || is_mul b then echo_tree Plain b else echo_tree Liberal b)
        | Power =>
            if is_two b then SUPow (echo_tree Parens a) [178]
            else if is_three b then SUPow (echo_tree Parens a) [179]
            else SPow (echo_tree Parens a) false (echo_tree Parens b)
        | _ => SBin (token_of_binop op) (echo_tree Parens a) (echo_tree Parens b)
        end in
      match m with
      | Plain => body
      | Parens => SParen body
      | Liberal =>
          match op, a, b with
          | Mul, XScalar _ _, XUnit _ => body
          | _, _, _ => SParen body
          end
      end
  | XCall name args =>
      match call_sugar name, args, m with
      | Some s, [a], Plain => sugar_tree s (echo_tree Liberal a)
      | _, _, _ => SCall (SIdent name) (map (echo_tree Plain) args)     (* also call_syntax *)
      end
  | XCallable callee args =>
      let sugared :=
        match callee, args, m with
        | XIdent name, [a], Plain =>
            match conversion_sugar name with Some s => Some (sugar_tree s (echo_tree Liberal a)) | None => None end
        | _, _, _ => None
        end in
      match sugared with
      | Some t => t
      | None => SCall (echo_tree Parens callee) (map (echo_tree Plain) args)
      end
  | XBool b => SBool b
  | XString s => SStr (c_quote :: escape_numbat_string s ++ [c_quote])
  | XInterp s0 items =>
      SInterp (c_quote :: escape_numbat_string s0 ++ [123])
        ((fix go (l : list (texpr * option str * str)) : list (sx * option str * str) :=
            match l with
            | [] => []
            | (a, f, s) :: r =>
                (echo_tree Plain a, f,
                 125 :: escape_numbat_string s ++ [match r with [] => c_quote | _ :: _ => 123 end]) :: go r
            end) items)
  | XIf c t f => wrapm m (SIf (echo_tree Parens c) (echo_tree Parens t) (echo_tree Parens f))
  | XField a n => SField (echo_tree Parens a) n
  | XHole => SHole
  | XList es => SList (map (echo_tree Plain) es)
  | XStruct n fields => SStruct n (map (fun fe => (fst fe, echo_tree Plain (snd fe))) fields)
  end.

(* the items of an interpolated string, for a given echo of the embedded expressions *)
Fixpoint echo_items (ec : texpr -> sx) (l : list (texpr * option str * str)) : list (sx * option str * str) :=
  match l with
  | [] => []
  | (a, f, s) :: r =>
      (ec a, f, 125 :: escape_numbat_string s ++ [match r with [] => c_quote | _ :: _ => 123 end]) :: echo_items ec r
  end.

(* Expression::pretty_print, as tokens *)
Definition pp (e : texpr) : list token := pr (echo_tree Plain e).


Fixpoint printable_t (e : texpr) : bool :=
  match e with
  | XScalar _ _ | XIdent _ | XUnit _ | XBool _ | XString _ | XHole => true
  | XNeg a | XFact _ a | XNot a | XField a _ => printable_t a
  | XBin op a b =>
      printable_t a && printable_t b &&
      match op with
      | Mul =>
          match a, b with
          | XScalar neg _, XUnit _ | XScalar neg _, XIdent _ => negb neg
          | _, _ => negb (bare_mul a b) || fused b   (* a chain of literal factors on the right loses its parentheses *)
          end
      | Add => negb (bare_add a b)                   (* a chain of literal summands on the right loses its parentheses *)
      | _ => true
      end
  | XCall _ args => forallb printable_t args
  | XCallable callee args => printable_t callee && forallb printable_t args
  | XInterp _ items =>
      match items with [] => false | _ => forallb (fun it => printable_t (fst (fst it))) items end
  | XIf c t f => printable_t c && printable_t t && printable_t f
  | XList es => forallb printable_t es
  | XStruct _ fields => forallb (fun fe => printable_t (snd fe)) fields
  end.

(* the untyped tree an expression was elaborated from, construct by construct *)
Fixpoint erase (e : texpr) : expr :=
  match e with
  | XScalar false d => EScalar d
  | XScalar true d => EUn Negate (EScalar d)
  | XIdent n | XUnit n => EIdent n
  | XNeg a => EUn Negate (erase a)
  | XFact k a => EUn (Factorial (S k)) (erase a)
  | XNot a => EUn LogicalNeg (erase a)
  | XBin op a b =>
      (* a literal exponent 2 or 3 is the same number whether it was written `^2` or `²`; the
         untyped model tree keeps the spelling, and the echo uses the superscript *)
      match op with
      | Power =>
          if is_two b then EBin Power (erase a) (EScalarExp 2)
          else if is_three b then EBin Power (erase a) (EScalarExp 3)
          else EBin Power (erase a) (erase b)
      | _ => EBin op (erase a) (erase b)
      end
  | XCall name args => ECall (EIdent name) (map erase args)
  | XCallable callee args => ECall (erase callee) (map erase args)
  | XBool b => EBool b
  | XString s => EString s
  | XInterp s0 items =>
      EInterp (filter nonempty_part
                 (PFixed s0 :: flat_map (fun it => [PExpr (erase (fst (fst it))) (snd (fst it)); PFixed (snd it)]) items))
  | XIf c t f => EIf (erase c) (erase t) (erase f)
  | XField a n => EField (erase a) n
  | XHole => EHole
  | XList es => EList (map erase es)
  | XStruct n fields => EStruct n (map (fun fe => (fst fe, erase (snd fe))) fields)
  end.

(* expressions without temperature sugar and without digit separators: their echo is read back as
   exactly the tree they were elaborated from *)
Definition no_underscore (d : str) : bool := forallb (fun c => negb (c =? 95)) d.
Definition none_sugar (o : option sugar) : bool := match o with None => true | Some _ => false end.

Fixpoint exact_t (e : texpr) : bool :=
  match e with
  | XScalar _ d => no_underscore d
  | XIdent _ | XUnit _ | XBool _ | XString _ | XHole => true
  | XNeg a | XFact _ a | XNot a | XField a _ => exact_t a
  | XBin _ a b => exact_t a && exact_t b
  | XCall name args => none_sugar (call_sugar name) && forallb exact_t args
  | XCallable callee args =>
      exact_t callee && forallb exact_t args
      && match callee with XIdent name => none_sugar (conversion_sugar name) | _ => true end
  | XInterp _ items => forallb (fun it => exact_t (fst (fst it))) items
  | XIf c t f => exact_t c && exact_t t && exact_t f
  | XList es => forallb exact_t es
  | XStruct _ fields => forallb (fun fe => exact_t (snd fe)) fields
  end.
