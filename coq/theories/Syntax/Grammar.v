(* C10 — the documented expression syntax as data.

   `sx` is a derivation tree of the grammar in the header comment of
   numbat/src/parser.rs, keeping the spelling choices (`per` vs `/`, implicit
   vs explicit multiplication, `^` vs a unicode exponent, `->` vs `to`,
   explicit parentheses).  `lvl` is the precedence table of
   book/src/basics/operations.md (higher = binds tighter; `*`,`/` share a level
   and `+`,`-` share a level as in the grammar comment).  `wf` says that every
   operand sits at the level the grammar requires (otherwise parentheses are
   needed), plus the two side conditions of juxtaposition.  `pr` prints the
   tokens, `desugar` gives the tree the documentation prescribes.
   `min_paren` renders an abstract tree with the fewest parentheses the table
   allows.  No proofs here. *)
From Coq Require Import List NArith ZArith Bool Arith.
From NV Require Import Syntax.Token Syntax.Ast Syntax.StmtAst Syntax.StrEsc Syntax.Parser.
Import ListNotations.
Local Open Scope nat_scope.

Inductive sx :=
| SNum (lexeme : str)
| SBased (base : N) (lexeme : str)
| SNaN | SInf
| SIdent (name : str)
| SHole
| SBool (b : bool)
| SStr (lexeme : str)
| SInterp (start : str) (items : list (sx * option str * str))
    (* an interpolated string: the lexeme of the opening part (through the first brace), then for each
       interpolation the expression, the lexeme of its format specifiers if any, and the lexeme of
       the string part that follows it (the last one ends the string) *)
| SParen (e : sx)
| SList (es : list sx)                        (* [e, …] *)
| SStruct (name : str) (fields : list (str * sx))   (* Name { f: e, … } *)
| SCall (f : sx) (args : list sx)
| SField (e : sx) (name : str)
| SUPow (e : sx) (lexeme : str)
| SFact (e : sx) (order_pred : nat)          (* order = S order_pred *)
| SPow (a : sx) (neg : bool) (b : sx)        (* a ^ b, a ^ - b *)
| SIMul (a b : sx)                           (* juxtaposition *)
| SNeg (e : sx) | SPos (e : sx)
| SBin (op : token) (a b : sx)               (* the left-associative binary levels *)
| SNot (e : sx)
| SIf (c t e : sx)
| SApply (e f : sx).                         (* e |> f *)

(* level of the binary operator tokens *)
Definition binlevel (t : token) : option nat :=
  match t with
  | TArrow | TTo => Some 2
  | TLogicalOr => Some 3
  | TLogicalAnd => Some 4
  | TLessThan | TGreaterThan | TLessOrEqual | TGreaterOrEqual | TEqualEqual | TNotEqual => Some 6
  | TPlus | TMinus => Some 7
  | TMultiply | TDivide => Some 8
  | TPer => Some 9
  | _ => None
  end.

Definition binop_of (t : token) : binop :=
  match t with
  | TArrow | TTo => ConvertTo
  | TLogicalOr => LogicalOr
  | TLogicalAnd => LogicalAnd
  | TLessThan => LessThan | TGreaterThan => GreaterThan
  | TLessOrEqual => LessOrEqual | TGreaterOrEqual => GreaterOrEqual
  | TEqualEqual => Equal | TNotEqual => NotEqual
  | TPlus => Add | TMinus => Sub
  | TMultiply => Mul | TDivide => Div
  | TPer => Div
  | _ => Add
  end.

(* precedence level: 0 `|>`, 1 if-then-else, 2 conversion, 3 `||`, 4 `&&`, 5 `!x`,
   6 comparisons, 7 `+ -`, 8 `* /`, 9 `per`, 10 unary minus, 11 juxtaposition,
   12 `^`, 13 factorial, 14 unicode exponent, 15 call / field access, 16 primary *)
Definition lvl (t : sx) : nat :=
  match t with
  | SNum _ | SBased _ _ | SNaN | SInf | SIdent _ | SHole | SBool _ | SStr _ | SInterp _ _ | SParen _
  | SList _ | SStruct _ _ => 16
  | SCall _ _ | SField _ _ => 15
  | SUPow _ _ => 14
  | SFact _ _ => 13
  | SPow _ _ _ => 12
  | SIMul _ _ => 11
  | SNeg _ | SPos _ => 10
  | SBin op _ _ => match binlevel op with Some k => k | None => 0 end
  | SNot _ => 5
  | SIf _ _ _ => 1
  | SApply _ _ => 0
  end.

Fixpoint pr (t : sx) : list token :=
  match t with
  | SNum l => [TNumber l]
  | SBased b l => [TIntBase b l]
  | SNaN => [TNaN] | SInf => [TInf]
  | SIdent n => [TIdent n]
  | SHole => [TQuestionMark]
  | SBool b => [if b then TTrue else TFalse]
  | SStr l => [TString l]
  | SInterp l0 items =>
      TInterpStart l0 ::
      (fix go (l : list (sx * option str * str)) : list token :=
         match l with
         | [] => []
         | (a, f, lx) :: r =>
             pr a ++ match f with Some x => [TInterpSpec x] | None => [] end
             ++ match r with [] => [TInterpEnd lx] | _ :: _ => TInterpMiddle lx :: go r end
         end) items
  | SParen e => TLParen :: pr e ++ [TRParen]
  | SList es =>
      TLBracket ::
      (fix go (l : list sx) : list token :=
         match l with
         | [] => []
         | a :: r => pr a ++ match r with [] => [] | _ :: _ => TComma :: go r end
         end) es ++ [TRBracket]
  | SStruct n fields =>
      TIdent n :: TLCurly ::
      (fix go (l : list (str * sx)) : list token :=
         match l with
         | [] => []
         | (f, a) :: r => TIdent f :: TColon :: pr a ++ match r with [] => [] | _ :: _ => TComma :: go r end
         end) fields ++ [TRCurly]
  | SCall f args =>
      pr f ++ TLParen ::
      (fix go (l : list sx) : list token :=
         match l with
         | [] => []
         | a :: r => pr a ++ match r with [] => [] | _ :: _ => TComma :: go r end
         end) args ++ [TRParen]
  | SField e n => pr e ++ [TPeriod; TIdent n]
  | SUPow e l => pr e ++ [TUnicodeExponent l]
  | SFact e n => pr e ++ repeat TExcl (S n)
  | SPow a neg b => pr a ++ TPower :: (if neg then [TMinus] else []) ++ pr b
  | SIMul a b => pr a ++ pr b
  | SNeg e => TMinus :: pr e
  | SPos e => TPlus :: pr e
  | SBin op a b => pr a ++ op :: pr b
  | SNot e => TExcl :: pr e
  | SIf c t e => TIf :: pr c ++ TThen :: pr t ++ TElse :: pr e
  | SApply e f => pr e ++ TPostfixApply :: pr f
  end.

Fixpoint pr_args (args : list sx) : list token :=
  match args with
  | [] => []
  | a :: r => pr a ++ match r with [] => [] | _ :: _ => TComma :: pr_args r end
  end.

Definition pr_spec (f : option str) : list token := match f with Some x => [TInterpSpec x] | None => [] end.
Fixpoint pr_items (items : list (sx * option str * str)) : list token :=
  match items with
  | [] => []
  | (a, f, lx) :: r =>
      pr a ++ pr_spec f ++ match r with [] => [TInterpEnd lx] | _ :: _ => TInterpMiddle lx :: pr_items r end
  end.

Fixpoint pr_fields (fields : list (str * sx)) : list token :=
  match fields with
  | [] => []
  | (f, a) :: r => TIdent f :: TColon :: pr a ++ match r with [] => [] | _ :: _ => TComma :: pr_fields r end
  end.

Fixpoint desugar (t : sx) : expr :=
  match t with
  | SNum l => EScalar (remove_underscores l)
  | SBased _ l => EScalar (remove_underscores l)
  | SNaN => EScalar [78; 97; 78]%N
  | SInf => EScalar [105; 110; 102]%N
  | SIdent n => EIdent n
  | SHole => EHole
  | SBool b => EBool b
  | SStr l => EString (strip_and_escape l)
  | SInterp l0 items =>
      EInterp (filter nonempty_part
                 (PFixed (strip_and_escape l0)
                  :: flat_map (fun it => [PExpr (desugar (fst (fst it))) (snd (fst it));
                                          PFixed (strip_and_escape (snd it))]) items))
  | SParen e => desugar e
  | SList es => EList (map desugar es)
  | SStruct n fields => EStruct n (map (fun fe => (fst fe, desugar (snd fe))) fields)
  | SCall f args => ECall (desugar f) (map desugar args)
  | SField e n => EField (desugar e) n
  | SUPow e l => EBin Power (desugar e) (EScalarExp (unicode_exponent_to_int l))
  | SFact e n => EUn (Factorial (S n)) (desugar e)
  | SPow a neg b => EBin Power (desugar a) (if neg then EUn Negate (desugar b) else desugar b)
  | SIMul a b => EBin Mul (desugar a) (desugar b)
  | SNeg e => EUn Negate (desugar e)
  | SPos e => desugar e
  | SBin op a b => EBin (binop_of op) (desugar a) (desugar b)
  | SNot e => EUn LogicalNeg (desugar e)
  | SIf c t e => EIf (desugar c) (desugar t) (desugar e)
  | SApply e f =>
      match desugar f with
      | EIdent n => ECall (EIdent n) [desugar e]
      | ECall callee args => ECall callee (args ++ [desugar e])
      | other => other
      end
  end.

(* does a following `(` or `.` attach to the end of this tree (Parser::call is
   still looping when the last token of the tree has been read)? *)
Fixpoint ends_call (t : sx) : bool :=
  match t with
  | SUPow _ _ | SFact _ _ => false
  | SPow _ _ b | SIMul _ b | SBin _ _ b => ends_call b
  | SNeg e | SPos e | SNot e => ends_call e
  | SIf _ _ e => ends_call e
  | _ => true
  end.

Definition starts_lparen (ts : list token) : bool :=
  match ts with TLParen :: _ => true | _ => false end.

Definition ident_or_call (e : expr) : bool :=
  match e with EIdent _ | ECall _ _ => true | _ => false end.

Fixpoint wf (t : sx) : bool :=
  match t with
  | SNum _ | SNaN | SInf | SIdent _ | SHole | SBool _ | SStr _ => true
  | SBased b l => negb (i128_overflow (radix_value b (tl (tl l))))
  | SInterp _ items => match items with [] => false | _ => forallb (fun it => wf (fst (fst it))) items end
  | SParen e => wf e
  | SList es => forallb wf es
  | SStruct _ fields => forallb (fun fe => wf (snd fe)) fields
  | SCall f args => wf f && (15 <=? lvl f) && forallb wf args
  | SField e _ => wf e && (15 <=? lvl e)
  | SUPow e _ => wf e && (15 <=? lvl e)
  | SFact e _ => wf e && (14 <=? lvl e)
  | SPow a _ b => wf a && wf b && (13 <=? lvl a) && (12 <=? lvl b)
  | SIMul a b =>
      wf a && wf b && (11 <=? lvl a) && (12 <=? lvl b)
      && could_start_power (pr b) && negb (starts_lparen (pr b) && ends_call a)
  | SNeg e | SPos e => wf e && (10 <=? lvl e)
  | SBin op a b =>
      match binlevel op with
      | Some k => wf a && wf b && (k <=? lvl a) && (S k <=? lvl b)
      | None => false
      end
  | SNot e => wf e && (5 <=? lvl e)
  | SIf c t e => wf c && wf t && wf e && (2 <=? lvl c) && (1 <=? lvl t) && (1 <=? lvl e)
  | SApply e f => wf e && wf f && (15 <=? lvl f) && ident_or_call (desugar f)
  end.

(* ------------------------------------------------------------------------
   Statements of the model: an expression, `let name = e`, a procedure call. *)
Inductive sst :=
| SSExpr (t : sx)
| SSLet (name : str) (t : sx)
| SSProc (k : kw) (args : list sx).

Definition pr_stmt (s : sst) : list token :=
  match s with
  | SSExpr t => pr t
  | SSLet n t => TKw KLet :: TIdent n :: TEqual :: pr t
  | SSProc k args => TKw k :: TLParen :: pr_args args ++ [TRParen]
  end.

Definition wf_stmt (s : sst) : bool :=
  match s with
  | SSExpr t | SSLet _ t => wf t
  | SSProc k args => is_procedure k && forallb wf args
  end.

Definition desugar_stmt (s : sst) : stmt :=
  match s with
  | SSExpr t => StExpr (desugar t)
  | SSLet n t => StLet (mk_defvar n None [] (desugar t))
  | SSProc k args => StProc k (map desugar args)
  end.

(* ------------------------------------------------------------------------
   Minimal parenthesisation of an abstract tree according to the table. *)
Definition paren_if (b : bool) (s : sx) : sx := if b then SParen s else s.
Definition at_level (k : nat) (s : sx) : sx := paren_if (lvl s <? k) s.

(* the canonical operator token of a binary operator (Div is printed `/`) *)
Definition token_of_binop (o : binop) : token :=
  match o with
  | Add => TPlus | Sub => TMinus | Mul => TMultiply | Div => TDivide
  | Power => TPower | ConvertTo => TArrow
  | LessThan => TLessThan | GreaterThan => TGreaterThan
  | LessOrEqual => TLessOrEqual | GreaterOrEqual => TGreaterOrEqual
  | Equal => TEqualEqual | NotEqual => TNotEqual
  | LogicalAnd => TLogicalAnd | LogicalOr => TLogicalOr
  end.

Definition nan_lexeme : str := [78; 97; 78]%N.
Definition inf_lexeme : str := [105; 110; 102]%N.

Fixpoint min_paren (e : expr) : sx :=
  match e with
  | EScalar l => SNum l
  | EScalarExp k => SNum []                 (* only meaningful as a unicode exponent; see `printable` *)
  | EIdent n => SIdent n
  | EHole => SHole
  | EBool b => SBool b
  | EString s => SStr (c_quote :: escape_numbat_string s ++ [c_quote])
  | EInterp parts =>
      (* the parts in the shape the parser builds them: text before the first interpolation, then per
         interpolation the expression, its specifiers and the text after it; canonical lexemes *)
      let si :=
        (fix go (ps : list (ipart expr)) : str * list (sx * option str * str) :=
           match ps with
           | [] => ([], [])
           | PFixed s :: r => let (s0, it) := go r in (s ++ s0, it)
           | PExpr a f :: r =>
               let (s0, it) := go r in
               ([], (min_paren a, f,
                     125%N :: escape_numbat_string s0 ++ [match it with [] => c_quote | _ :: _ => 123%N end]) :: it)
           end) parts in
      SInterp (c_quote :: escape_numbat_string (fst si) ++ [123%N]) (snd si)
  | EUn Negate a => SNeg (at_level 10 (min_paren a))
  | EUn (Factorial n) a => SFact (at_level 14 (min_paren a)) (pred n)
  | EUn LogicalNeg a => SNot (at_level 5 (min_paren a))
  | EBin Power a b => SPow (at_level 13 (min_paren a)) false (at_level 12 (min_paren b))
  | EBin o a b =>
      let t := token_of_binop o in
      let k := match binlevel t with Some k => k | None => 0 end in
      SBin t (at_level k (min_paren a)) (at_level (S k) (min_paren b))
  | ECall f args => SCall (at_level 15 (min_paren f)) (map min_paren args)
  | EField a n => SField (at_level 15 (min_paren a)) n
  | EIf c t f => SIf (at_level 2 (min_paren c)) (at_level 1 (min_paren t)) (at_level 1 (min_paren f))
  | EList es => SList (map min_paren es)
  | EStruct n fields => SStruct n (map (fun fe => (fst fe, min_paren (snd fe))) fields)
  end.

(* the abstract trees `min_paren` is specified for *)
Definition plain_number (l : str) : bool :=
  forallb (fun c => negb (c =? 95)%N) l
  && negb (if list_eq_dec N.eq_dec l nan_lexeme then true else false)
  && negb (if list_eq_dec N.eq_dec l inf_lexeme then true else false).

Fixpoint printable (e : expr) : bool :=
  match e with
  | EScalar l => forallb (fun c => negb (c =? 95)%N) l
  | EScalarExp _ => false
  | EIdent _ | EHole | EBool _ | EString _ => true
  | EInterp parts =>
      (* the shape the parser builds: no empty text, no two texts in a row, at least one interpolation *)
      existsb (fun p => match p with PExpr _ _ => true | PFixed _ => false end) parts
      && (fix np (prev_fixed : bool) (ps : list (ipart expr)) : bool :=
            match ps with
            | [] => true
            | PFixed s :: r => negb prev_fixed && match s with [] => false | _ => true end && np true r
            | PExpr a _ :: r => printable a && np false r
            end) false parts
  | EUn (Factorial n) a => negb (n =? 0) && printable a
  | EUn _ a => printable a
  | EBin _ a b => printable a && printable b
  | ECall f args => printable f && forallb printable args
  | EField a _ => printable a
  | EIf c t f => printable c && printable t && printable f
  | EList es => forallb printable es
  | EStruct _ fields => forallb (fun fe => printable (snd fe)) fields
  end.
