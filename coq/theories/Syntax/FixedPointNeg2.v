(* C15 — the fixed-point clause without the restriction on negative literals: re-elaborating the tree
   read back from the echo gives `nneg e`, whose echo is the echo of `e` (Syntax/FixedPointNeg.v). *)
From Coq Require Import List NArith ZArith Bool Arith Lia.
From NV Require Import Syntax.Token Syntax.Ast Syntax.StmtAst Syntax.StrEsc Syntax.Parser Syntax.Grammar
     Syntax.ParserProofs Syntax.TypedPrinter Syntax.TypedPrinterProofs Syntax.FixedPoint Syntax.FixedPointNeg.
Import ListNotations.
Local Open Scope nat_scope.

Section LiftNeg.
  Variables is_unit is_fn : str -> bool.
  Notation lift := (lift is_unit is_fn).
  Notation lift_parts := (lift_parts is_unit is_fn).

  (* `consistent` without the condition on negative literals *)
  Fixpoint consistent_n (e : texpr) : bool :=
    match e with
    | XScalar _ _ => true
    | XIdent n => negb (is_unit n)
    | XUnit n => is_unit n
    | XNeg a | XFact _ a | XNot a | XField a _ => consistent_n a
    | XBin _ a b => consistent_n a && consistent_n b
    | XCall name args => is_fn name && forallb consistent_n args
    | XCallable callee args =>
        consistent_n callee && forallb consistent_n args
        && match callee with XIdent n | XUnit n => negb (is_fn n) | _ => true end
    | XBool _ | XString _ | XHole => true
    | XInterp _ items => forallb (fun it => consistent_n (fst (fst it))) items
    | XIf c t f => consistent_n c && consistent_n t && consistent_n f
    | XList es => forallb consistent_n es
    | XStruct _ fields => forallb (fun fe => consistent_n (snd fe)) fields
    end.

  Lemma map_lift_erase_nn : forall (args : list texpr),
    (forall a, In a args -> lift (erase a) = nneg a) -> map lift (map erase args) = map nneg args.
  Proof. intros args H. rewrite map_map. apply map_ext_in. exact H. Qed.

  Lemma lift_parts_items_nn : forall items,
    (forall a f s, In (a, f, s) items -> lift (erase a) = nneg a) ->
    lift_parts (filter nonempty_part
      (flat_map (fun it : texpr * option str * str =>
                   [PExpr (erase (fst (fst it))) (snd (fst it)); PFixed (snd it)]) items))
    = ([], map (fun it : texpr * option str * str => (nneg (fst (fst it)), snd (fst it), snd it)) items).
  Proof.
    induction items as [|[[a f] s] r IH]; intros H; [reflexivity|].
    cbn [flat_map fst snd app map].
    rewrite lift_parts_expr, lift_parts_fixed.
    rewrite IH by (intros b g t Hb; apply (H b g t); right; exact Hb).
    cbn [fst snd]. rewrite app_nil_r. rewrite (H a f s (or_introl eq_refl)). reflexivity.
  Qed.

  Theorem lift_erase_nn : forall n e, tsize e < n -> consistent_n e = true -> lift (erase e) = nneg e.
  Proof.
    induction n; intros e Hs Hc; [lia|].
    destruct e; simpl in Hs, Hc.
    - destruct negative; reflexivity.
    - simpl. apply negb_true_iff in Hc. rewrite Hc. reflexivity.
    - simpl. rewrite Hc. reflexivity.
    - simpl. rewrite (IHn e ltac:(lia) Hc). reflexivity.
    - simpl. rewrite (IHn e ltac:(lia) Hc). reflexivity.
    - simpl. rewrite (IHn e ltac:(lia) Hc). reflexivity.
    - (* XBin *)
      apply andb_prop in Hc. destruct Hc as [H1 H2].
      pose proof (IHn e1 ltac:(lia) H1) as E1. pose proof (IHn e2 ltac:(lia) H2) as E2.
      destruct op; simpl; rewrite ?E1, ?E2; try reflexivity.
      destruct (is_two e2) eqn:T2.
      + simpl. rewrite E1. rewrite (is_two_eq e2 T2). reflexivity.
      + destruct (is_three e2) eqn:T3.
        * simpl. rewrite E1. rewrite (is_three_eq e2 T3). reflexivity.
        * simpl. rewrite E1, E2. reflexivity.
    - (* XCall *)
      apply andb_prop in Hc. destruct Hc as [Hf Ha]. simpl. rewrite Hf.
      rewrite map_lift_erase_nn; [reflexivity|].
      intros a Hin. apply IHn. pose proof (tsize_in a args Hin). lia. eapply forallb_forall in Ha; eauto.
    - (* XCallable *)
      apply andb_prop in Hc. destruct Hc as [Hc Hn']. apply andb_prop in Hc. destruct Hc as [Hcal Ha].
      assert (EA : map lift (map erase args) = map nneg args).
      { apply map_lift_erase_nn. intros a Hin. apply IHn. pose proof (tsize_in a args Hin). lia.
        eapply forallb_forall in Ha; eauto. }
      pose proof (IHn e ltac:(lia) Hcal) as Ec.
      cbn [erase lift nneg].
      destruct e; cbn [erase nneg] in *; try (rewrite Ec, EA; reflexivity).
      + destruct negative; cbn [erase lift nneg] in *; rewrite EA; reflexivity.
      + apply negb_true_iff in Hn'. rewrite Hn'. cbn [lift] in *. rewrite Ec, EA. reflexivity.
      + apply negb_true_iff in Hn'. rewrite Hn'. cbn [lift] in *. rewrite Ec, EA. reflexivity.
      + destruct op; cbn [lift] in *; try (rewrite Ec, EA; reflexivity).
        destruct (is_two e2); [|destruct (is_three e2)]; cbn [lift] in *; rewrite Ec, EA; reflexivity.
    - reflexivity.
    - reflexivity.
    - (* XInterp *)
      cbn [erase nneg]. rewrite lift_interp. rewrite lift_parts_fixed.
      rewrite lift_parts_items_nn.
      + cbn [fst snd]. rewrite app_nil_r. reflexivity.
      + intros a f s Ha. apply IHn; [pose proof (tsize_in_items a f s _ Ha); lia|].
        eapply forallb_forall in Hc; [|exact Ha]. exact Hc.
    - (* XIf *)
      apply andb_prop in Hc. destruct Hc as [Hc H3]. apply andb_prop in Hc. destruct Hc as [H1 H2].
      simpl. rewrite (IHn e1 ltac:(lia) H1), (IHn e2 ltac:(lia) H2), (IHn e3 ltac:(lia) H3). reflexivity.
    - simpl. rewrite (IHn e ltac:(lia) Hc). reflexivity.
    - reflexivity.
    - (* XList *)
      simpl. rewrite map_lift_erase_nn; [reflexivity|].
      intros a Hin. apply IHn. pose proof (tsize_in a es Hin). lia. eapply forallb_forall in Hc; eauto.
    - (* XStruct *)
      simpl. f_equal. rewrite map_map. apply map_ext_in.
      intros [f a] Hin. simpl. f_equal. apply IHn. pose proof (tsize_in_fields f a fields Hin). lia.
      eapply forallb_forall in Hc; [|exact Hin]. exact Hc.
  Qed.

  (* the echo is a fixed point, negative literals included *)
  Theorem echo_fixed_point_neg : forall e,
    printable_t e = true -> exact_t e = true -> consistent_n e = true ->
    exists u, parse (pp e) = Ok [StExpr u] [] /\ pp (lift u) = pp e.
  Proof.
    intros e Hp Hx Hc. exists (erase e). split; [apply echo_roundtrip_exact; assumption|].
    rewrite (lift_erase_nn (S (tsize e)) e ltac:(lia) Hc). unfold pp.
    rewrite (nneg_echo (S (tsize e)) e ltac:(lia) Hp Plain). reflexivity.
  Qed.
End LiftNeg.
