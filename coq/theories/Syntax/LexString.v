(* C15/C10 — the lexer on echoed strings: the text `"` + escape_numbat_string s + `"` that the printer
   writes for ANY string s is exactly one StringFixed token with that lexeme; and the parts of an
   echoed interpolated string (`"…{`, `}…{`, `}…"`) are exactly one StringInterpolationStart / Middle /
   End token.  With C15_string_escape this closes the loop text -> token -> string for every string. *)
From Coq Require Import List NArith ZArith Bool Lia.
From NV Require Import Syntax.Token Syntax.StrEsc Syntax.Lexer Syntax.LexNumber.
Import ListNotations.
Local Open Scope N_scope.

(* where consume_string stops: end of input, an unescaped quote, a single brace *)
Definition sstop (rest : str) : bool :=
  match rest with
  | [] => true
  | c :: r => (c =? 34) || (((c =? 123) || (c =? 125)) && negb (peek_is (fun x => x =? c) r))
  end.

Lemma consume_stop : forall n rest, sstop rest = true -> consume_string (S n) false rest = ([], rest).
Proof.
  intros n rest H. destruct rest as [|c r]; [reflexivity|]. cbn [sstop] in H. cbn [consume_string negb].
  rewrite andb_true_r. rewrite andb_true_r.
  apply orb_prop in H. destruct H as [H|H].
  - apply N.eqb_eq in H. subst c. reflexivity.
  - apply andb_prop in H. destruct H as [B P]. apply negb_true_iff in P.
    assert (N92 : (c =? 92) = false).
    { apply orb_prop in B. destruct B as [B|B]; apply N.eqb_eq in B; subst c; reflexivity. }
    assert (N34 : (c =? 34) = false).
    { apply orb_prop in B. destruct B as [B|B]; apply N.eqb_eq in B; subst c; reflexivity. }
    rewrite N92, N34, B. destruct r as [|c2 r2]; [reflexivity|]. cbn [peek_is] in P. rewrite P. reflexivity.
Qed.

Lemma consume_escaped : forall s n rest, (length (escape_numbat_string s) < n)%nat -> sstop rest = true ->
  consume_string n false (escape_numbat_string s ++ rest) = (escape_numbat_string s, rest).
Proof.
  induction s as [|c s IH]; intros n rest Hn St.
  - destruct n; [simpl in Hn; lia|]. apply consume_stop. exact St.
  - cbn [escape_numbat_string] in *. rewrite app_length in Hn. rewrite <- app_assoc.
    unfold escape_char in *. unfold c_nl, c_cr, c_tab, c_quote, c_nul, c_lcurly, c_rcurly, c_bslash, c_n, c_r, c_t, c_0 in *.
    (* two-character escapes beginning with a backslash *)
    assert (Two : forall x, (x =? 92) = false -> (x =? 34) && negb true = false ->
              ((x =? 123) || (x =? 125)) = false ->
              (2 + length (escape_numbat_string s) < n)%nat ->
              consume_string n false ([92; x] ++ escape_numbat_string s ++ rest)
              = ([92; x] ++ escape_numbat_string s, rest)).
    { intros x X92 _ XB Hl. destruct n as [|[|n]]; try (simpl in Hl; lia).
      cbn [app consume_string negb andb N.eqb Pos.eqb]. rewrite X92. cbn [andb]. rewrite andb_false_r.
      rewrite XB. rewrite IH; [reflexivity| |exact St]. simpl in Hl. lia. }
    destruct (c =? 10) eqn:E1; [apply Two; try reflexivity; exact Hn|].
    destruct (c =? 13) eqn:E2; [apply Two; try reflexivity; exact Hn|].
    destruct (c =? 9) eqn:E3; [apply Two; try reflexivity; exact Hn|].
    destruct (c =? 34) eqn:E4.
    { destruct n as [|[|n]]; try (simpl in Hn; lia).
      cbn [app consume_string negb andb N.eqb Pos.eqb orb]. rewrite IH; [reflexivity| |exact St]. simpl in Hn. lia. }
    destruct (c =? 0) eqn:E5; [apply Two; try reflexivity; exact Hn|].
    destruct ((c =? 123) || (c =? 125) || (c =? 92)) eqn:E6.
    + (* doubled *)
      destruct (c =? 92) eqn:E7.
      * apply N.eqb_eq in E7. subst c. destruct n as [|[|n]]; try (simpl in Hn; lia).
        cbn [app consume_string negb andb N.eqb Pos.eqb orb]. rewrite IH; [reflexivity| |exact St]. simpl in Hn. lia.
      * rewrite orb_false_r in E6. destruct n as [|n]; [simpl in Hn; lia|].
        cbn [app consume_string negb]. rewrite E7, E4. cbn [andb]. rewrite E6. rewrite N.eqb_refl.
        rewrite IH; [reflexivity| |exact St]. simpl in Hn. lia.
    + (* an ordinary character *)
      apply orb_false_iff in E6. destruct E6 as [E6 E7].
      destruct n as [|n]; [simpl in Hn; lia|].
      cbn [app consume_string negb]. rewrite E7, E4. cbn [andb]. rewrite E6.
      rewrite IH; [reflexivity| |exact St]. simpl in Hn. lia.
Qed.

Section Strings.
  Variables xid_start xid_continue : N -> bool.
  Notation sst := (scan_single_token xid_start xid_continue).

  Ltac dispatch :=
    unfold scan_single_token;
    cbn [N.eqb Pos.eqb andb orb negb is_ascii_digit is_exponent_char in_range N.leb N.compare Pos.compare Pos.compare_cont peek_is].

  Lemma fuel_ok : forall (a b : str), (length a < length (a ++ b))%nat \/ b = [].
  Proof. intros a [|x b]; [right; reflexivity|left]. rewrite app_length. simpl. lia. Qed.

  (* a fixed string *)
  Theorem lex_string_echo : forall d la s rest,
    inside_interpolation d && last_ends_string la = false ->
    sst d la (34 :: escape_numbat_string s ++ 34 :: rest)
    = LOk (Some (TString (34 :: escape_numbat_string s ++ [34])), rest, d).
  Proof.
    intros d la s rest G. dispatch.
    assert (G' : inside_interpolation d && last_ends_string la = false) by exact G.
    destruct (inside_interpolation d) eqn:I; cbn [andb negb] in *; rewrite ?G';
      (rewrite consume_escaped; [reflexivity|rewrite app_length; simpl; lia|reflexivity]).
  Qed.

  (* the opening part of an interpolated string: the expression that follows does not begin with a brace *)
  Theorem lex_interp_start_echo : forall d la s rest,
    inside_interpolation d && last_ends_string la = false -> peek_is (fun x => x =? 123) rest = false ->
    sst d la (34 :: escape_numbat_string s ++ 123 :: rest)
    = LOk (Some (TInterpStart (34 :: escape_numbat_string s ++ [123])), rest, true :: d).
  Proof.
    intros d la s rest G P. dispatch.
    assert (St : sstop (123 :: rest) = true) by (cbn [sstop N.eqb Pos.eqb orb andb]; rewrite P; reflexivity).
    destruct (inside_interpolation d) eqn:I; cbn [andb negb] in *; rewrite ?G;
      (rewrite consume_escaped; [reflexivity|rewrite app_length; simpl; lia|exact St]).
  Qed.

  (* the parts after an interpolation *)
  Theorem lex_interp_end_echo : forall d la s rest,
    inside_interpolation d = true ->
    sst d la (125 :: escape_numbat_string s ++ 34 :: rest)
    = LOk (Some (TInterpEnd (125 :: escape_numbat_string s ++ [34])), rest, tl d).
  Proof.
    intros d la s rest I. dispatch. rewrite I. cbn [andb negb].
    rewrite consume_escaped; [reflexivity|rewrite app_length; simpl; lia|reflexivity].
  Qed.

  Theorem lex_interp_middle_echo : forall d la s rest,
    inside_interpolation d = true -> peek_is (fun x => x =? 123) rest = false ->
    sst d la (125 :: escape_numbat_string s ++ 123 :: rest)
    = LOk (Some (TInterpMiddle (125 :: escape_numbat_string s ++ [123])), rest, d).
  Proof.
    intros d la s rest I P. dispatch. rewrite I. cbn [andb negb].
    assert (St : sstop (123 :: rest) = true) by (cbn [sstop N.eqb Pos.eqb orb andb]; rewrite P; reflexivity).
    rewrite consume_escaped; [reflexivity|rewrite app_length; simpl; lia|exact St].
  Qed.
End Strings.
