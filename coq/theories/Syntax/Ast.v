(* C10/C15 — untyped syntax tree of numbat/src/ast.rs (enum Expression) without spans. *)
From Coq Require Import List NArith ZArith Bool.
From NV Require Import Syntax.Token.
Import ListNotations.

Inductive unop := Negate | Factorial (order : nat) | LogicalNeg.

Inductive binop :=
| Add | Sub | Mul | Div | Power | ConvertTo
| LessThan | GreaterThan | LessOrEqual | GreaterOrEqual | Equal | NotEqual
| LogicalAnd | LogicalOr.

(* a part of an interpolated string (ast.rs StringPart): fixed text (after strip_and_escape) or an
   embedded expression with the raw text of its format specifiers (the lexeme of the
   StringInterpolationSpecifiers token, which begins with the colon) *)
Inductive ipart (A : Type) :=
| PFixed (s : str)
| PExpr (e : A) (fmt : option str).
Arguments PFixed {A}. Arguments PExpr {A}.

Inductive expr :=
| EScalar (lexeme : str)      (* numeric literal: lexeme without underscores (value = Rust's f64 parse of it) *)
| EScalarExp (k : Z)          (* the scalar made from a unicode exponent token *)
| EIdent (name : str)
| EHole
| EBool (b : bool)
| EString (content : str)     (* a string without interpolation, after strip_and_escape *)
| EInterp (parts : list (ipart expr))  (* an interpolated string; empty fixed parts removed *)
| EUn (op : unop) (e : expr)
| EBin (op : binop) (a b : expr)
| ECall (callee : expr) (args : list expr)
| EField (e : expr) (name : str)
| EIf (c t e : expr)
| EList (es : list expr)
| EStruct (name : str) (fields : list (str * expr)).
