(* C10/C15 — untyped syntax tree of numbat/src/ast.rs (enum Expression) without spans. *)
From Coq Require Import List NArith ZArith Bool.
From NV Require Import Syntax.Token.
Import ListNotations.

Inductive unop := Negate | Factorial (order : nat) | LogicalNeg.

Inductive binop :=
| Add | Sub | Mul | Div | Power | ConvertTo
| LessThan | GreaterThan | LessOrEqual | GreaterOrEqual | Equal | NotEqual
| LogicalAnd | LogicalOr.

Inductive expr :=
| EScalar (lexeme : str)      (* numeric literal: lexeme without underscores (value = Rust's f64 parse of it) *)
| EScalarExp (k : Z)          (* the scalar made from a unicode exponent token *)
| EIdent (name : str)
| EHole
| EBool (b : bool)
| EString (content : str)     (* a string without interpolation, after strip_and_escape *)
| EUn (op : unop) (e : expr)
| EBin (op : binop) (a b : expr)
| ECall (callee : expr) (args : list expr)
| EField (e : expr) (name : str)
| EIf (c t e : expr)
| EList (es : list expr)
| EStruct (name : str) (fields : list (str * expr)).
