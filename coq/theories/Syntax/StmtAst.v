(* C10/C15 — statement-level syntax trees of numbat/src/ast.rs (Statement, DefineVariable,
   TypeAnnotation, TypeExpression) and decorator.rs (Decorator), without spans. *)
From Coq Require Import List NArith ZArith Bool.
From NV Require Import Syntax.Token Syntax.Ast.
Import ListNotations.

(* Exponent = Ratio<i128> in lowest terms with a positive denominator *)
Definition exponent := (Z * positive)%type.

Inductive texp :=                       (* TypeExpression *)
| TEUnity
| TEIdent (name : str) (args : list tann)
| TEMul (a b : texp)
| TEDiv (a b : texp)
| TEPow (a : texp) (e : exponent)
with tann :=                            (* TypeAnnotation *)
| TAExp (t : texp)
| TABool | TAString | TADateTime
| TAFn (params : list tann) (ret : tann)
| TAList (t : tann).

(* AcceptsPrefix { short, long } *)
Inductive accepts := AcBoth | AcShort | AcLong | AcNone.

Inductive decorator :=
| DMetricPrefixes | DBinaryPrefixes | DAbbreviation
| DAliases (aliases : list (str * option accepts))
| DUrl (s : str) | DName (s : str) | DDescription (s : str)
| DExample (code : str) (description : option str).

(* DefineVariable *)
Record defvar := mk_defvar {
  dv_name : str; dv_ann : option tann; dv_decos : list decorator; dv_expr : expr }.

Inductive stmt :=
| StExpr (e : expr)
| StLet (v : defvar)
| StProc (k : kw) (args : list expr)
| StFn (name : str) (tparams : list (str * bool)) (params : list (str * option tann))
       (ret : option tann) (body : option expr) (locals : list defvar) (decos : list decorator)
| StDimension (name : str) (dexprs : list texp)
| StUnit (name : str) (ann : option tann) (e : option expr) (decos : list decorator)
       (* base unit: e = None and ann = Some (TAExp d) or None; derived: e = Some _ *)
| StUse (path : list str)
| StStruct (name : str) (tparams : list (str * bool)) (fields : list (str * tann)).
