(* byte strings shared by the text-level models *)
From Coq Require Export List Ascii String Bool.
Export ListNotations.

Definition bytes := list ascii.
Definition B (s : string) : bytes := list_ascii_of_string s.

Fixpoint beq (a b : bytes) : bool :=
  match a, b with
  | [], [] => true
  | x :: a', y :: b' => Ascii.eqb x y && beq a' b'
  | _, _ => false
  end.

Lemma beq_eq a b : beq a b = true <-> a = b.
Proof.
  revert b; induction a as [|x a IH]; intros [|y b]; simpl; split; intros H;
    try discriminate; auto.
  - apply andb_true_iff in H as [H1 H2]. apply Ascii.eqb_eq in H1. apply IH in H2. now subst.
  - inversion H; subst. rewrite Ascii.eqb_refl. simpl. now apply IH.
Qed.

Lemma beq_refl a : beq a a = true.
Proof. now apply beq_eq. Qed.

Lemma beq_neq a b : beq a b = false <-> a <> b.
Proof.
  split; intros H.
  - intros E. apply beq_eq in E. congruence.
  - destruct (beq a b) eqn:E; auto. apply beq_eq in E. contradiction.
Qed.

Definition bmem (x : bytes) (l : list bytes) : bool := existsb (beq x) l.

Lemma bmem_In x l : bmem x l = true <-> In x l.
Proof.
  unfold bmem. rewrite existsb_exists. split.
  - intros [y [Hy E]]. apply beq_eq in E. now subst.
  - intros H. exists x. split; auto. apply beq_refl.
Qed.

(* str::strip_prefix: Some rest iff s = p ++ rest *)
Fixpoint strip_prefix (p s : bytes) : option bytes :=
  match p, s with
  | [], _ => Some s
  | x :: p', y :: s' => if Ascii.eqb x y then strip_prefix p' s' else None
  | _, [] => None
  end.

Lemma strip_prefix_spec p s r : strip_prefix p s = Some r <-> s = p ++ r.
Proof.
  revert s; induction p as [|x p IH]; intros s; simpl.
  - split; intros H; [now inversion H | now subst].
  - destruct s as [|y s]; [split; intros H; discriminate|].
    destruct (Ascii.eqb x y) eqn:E.
    + apply Ascii.eqb_eq in E. subst y. rewrite IH. split; intros H; [now subst | now inversion H].
    + apply Ascii.eqb_neq in E. split; intros H; [discriminate | inversion H; congruence].
Qed.

(* str::ends_with *)
Definition ends_with (s suffix : bytes) : bool :=
  match strip_prefix (rev suffix) (rev s) with Some _ => true | None => false end.

Lemma ends_with_app p n : ends_with (p ++ n) n = true.
Proof.
  unfold ends_with. rewrite rev_app_distr.
  destruct (strip_prefix (rev n) (rev n ++ rev p)) eqn:E; auto.
  assert (strip_prefix (rev n) (rev n ++ rev p) = Some (rev p)) by now apply strip_prefix_spec.
  congruence.
Qed.
