(* Exact value of an IEEE-754 binary64 bit pattern as a rational (finite values). *)
From Coq Require Import ZArith QArith Qabs.
Open Scope Z_scope.

Definition f64_sign (bits : Z) : bool := Z.testbit bits 63.
Definition f64_exp (bits : Z) : Z := Z.land (Z.shiftr bits 52) 2047.
Definition f64_mant (bits : Z) : Z := Z.land bits (2 ^ 52 - 1).

Definition f64_is_finite (bits : Z) : bool := negb (Z.eqb (f64_exp bits) 2047).

(* value = (-1)^s * m * 2^e as the exact rational num/den *)
Definition f64_to_Q (bits : Z) : Q :=
  let e := f64_exp bits in
  let m := if Z.eqb e 0 then f64_mant bits else f64_mant bits + 2 ^ 52 in
  let ex := (if Z.eqb e 0 then 1 else e) - 1075 in
  let q := if Z.leb 0 ex then inject_Z (m * 2 ^ ex)
           else Qmake m (Z.to_pos (2 ^ (- ex))) in
  if f64_sign bits then Qopp q else q.

(* |x - y| <= rel * |y| *)
Definition Qclose (x y rel : Q) : bool :=
  Qle_bool (Qabs (x - y)) (rel * Qabs y).

Definition Qpow_Z (b : Z) (n : Z) : Q :=
  if Z.leb 0 n then inject_Z (b ^ n) else Qmake 1 (Z.to_pos (b ^ (- n))).
