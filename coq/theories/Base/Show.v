(* Text rendering used by the correspondence checks: the model prints its
   observations in the same line format as the Rust harness. *)
From Coq Require Export String List NArith ZArith Ascii.
From Coq Require Import DecimalString.
Export ListNotations.
Open Scope string_scope.

Definition show_N (n : N) : string := NilEmpty.string_of_uint (N.to_uint n).
Definition show_nat (n : nat) : string := show_N (N.of_nat n).
Definition show_Z (z : Z) : string :=
  match z with
  | Z0 => "0"
  | Zpos p => show_N (Npos p)
  | Zneg p => "-" ++ show_N (Npos p)
  end.
Definition show_bool (b : bool) : string := if b then "1" else "0".

Fixpoint join (sep : string) (l : list string) : string :=
  match l with
  | [] => ""
  | [x] => x
  | x :: r => x ++ sep ++ join sep r
  end.

(* indices of mismatching cases, with what the model says *)
Fixpoint mismatches_from (i : N) (l : list (string * string)) : list (N * string) :=
  match l with
  | [] => []
  | (model, impl) :: r =>
      if String.eqb model impl then mismatches_from (N.succ i) r
      else (i, model) :: mismatches_from (N.succ i) r
  end.
Definition mismatches := mismatches_from 0%N.
