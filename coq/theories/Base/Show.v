(* Text rendering used by the correspondence checks: the model prints its
   observations in the same line format as the Rust harness. *)
From Coq Require Export String List NArith ZArith Ascii.
From Coq Require Import DecimalString.
Export ListNotations.
Open Scope string_scope.

Definition show_N (n : N) : string := NilEmpty.string_of_uint (N.to_uint n).
Definition show_nat (n : nat) : string := show_N (N.of_nat n).
Definition show_Z (z : Z) : string :=
  match z with
  | Z0 => "0"
  | Zpos p => show_N (Npos p)
  | Zneg p => "-" ++ show_N (Npos p)
  end.
Definition show_bool (b : bool) : string := if b then "1" else "0".

Fixpoint join (sep : string) (l : list string) : string :=
  match l with
  | [] => ""
  | [x] => x
  | x :: r => x ++ sep ++ join sep r
  end.

(* indices of mismatching cases, with what the model says *)
Fixpoint mismatches_from (i : N) (l : list (string * string)) : list (N * string) :=
  match l with
  | [] => []
  | (model, impl) :: r =>
      if String.eqb model impl then mismatches_from (N.succ i) r
      else (i, model) :: mismatches_from (N.succ i) r
  end.
Definition mismatches := mismatches_from 0%N.

(* hex rendering of byte strings (list ascii) *)
Definition hexdigit (n : nat) : ascii :=
  match n with
  | 0 => "0" | 1 => "1" | 2 => "2" | 3 => "3" | 4 => "4" | 5 => "5" | 6 => "6" | 7 => "7"
  | 8 => "8" | 9 => "9" | 10 => "a" | 11 => "b" | 12 => "c" | 13 => "d" | 14 => "e" | _ => "f"
  end%char.

Fixpoint hex_of_bytes (b : list ascii) : string :=
  match b with
  | [] => EmptyString
  | c :: r => let n := nat_of_ascii c in
              String (hexdigit (Nat.div n 16)) (String (hexdigit (Nat.modulo n 16)) (hex_of_bytes r))
  end.
