(* GENERATED on every run by tools/props/c13.py from numbat::verif::prefix::prefix_table /
   prefix_rendering / prefix_factor_bits of the running implementation. Do not edit. *)
From NV Require Import Prefix.Model.
Local Open Scope string_scope.

Definition gen_table : list pentry := [
  mkE (B "quecto") [(B "q")] (mkP Metric (-30));
  mkE (B "ronto") [(B "r")] (mkP Metric (-27));
  mkE (B "yocto") [(B "y")] (mkP Metric (-24));
  mkE (B "zepto") [(B "z")] (mkP Metric (-21));
  mkE (B "atto") [(B "a")] (mkP Metric (-18));
  mkE (B "femto") [(B "f")] (mkP Metric (-15));
  mkE (B "pico") [(B "p")] (mkP Metric (-12));
  mkE (B "nano") [(B "n")] (mkP Metric (-9));
  mkE (B "micro") [(B "µ"); (B "μ"); (B "u")] (mkP Metric (-6));
  mkE (B "milli") [(B "m")] (mkP Metric (-3));
  mkE (B "centi") [(B "c")] (mkP Metric (-2));
  mkE (B "deci") [(B "d")] (mkP Metric (-1));
  mkE (B "deca") [(B "da")] (mkP Metric (1));
  mkE (B "hecto") [(B "h")] (mkP Metric (2));
  mkE (B "kilo") [(B "k")] (mkP Metric (3));
  mkE (B "mega") [(B "M")] (mkP Metric (6));
  mkE (B "giga") [(B "G")] (mkP Metric (9));
  mkE (B "tera") [(B "T")] (mkP Metric (12));
  mkE (B "peta") [(B "P")] (mkP Metric (15));
  mkE (B "exa") [(B "E")] (mkP Metric (18));
  mkE (B "zetta") [(B "Z")] (mkP Metric (21));
  mkE (B "yotta") [(B "Y")] (mkP Metric (24));
  mkE (B "ronna") [(B "R")] (mkP Metric (27));
  mkE (B "quetta") [(B "Q")] (mkP Metric (30));
  mkE (B "kibi") [(B "Ki")] (mkP Binary (10));
  mkE (B "mebi") [(B "Mi")] (mkP Binary (20));
  mkE (B "gibi") [(B "Gi")] (mkP Binary (30));
  mkE (B "tebi") [(B "Ti")] (mkP Binary (40));
  mkE (B "pebi") [(B "Pi")] (mkP Binary (50));
  mkE (B "exbi") [(B "Ei")] (mkP Binary (60));
  mkE (B "zebi") [(B "Zi")] (mkP Binary (70));
  mkE (B "yobi") [(B "Yi")] (mkP Binary (80));
  mkE (B "robi") [(B "Ri")] (mkP Binary (90));
  mkE (B "quebi") [(B "Qi")] (mkP Binary (100))
].

Definition gen_render_short_tbl : list (prefix * bytes) := [
  (pnone, (B ""));
  ((mkP Metric (-30)), (B "q"));
  ((mkP Metric (-27)), (B "r"));
  ((mkP Metric (-24)), (B "y"));
  ((mkP Metric (-21)), (B "z"));
  ((mkP Metric (-18)), (B "a"));
  ((mkP Metric (-15)), (B "f"));
  ((mkP Metric (-12)), (B "p"));
  ((mkP Metric (-9)), (B "n"));
  ((mkP Metric (-6)), (B "µ"));
  ((mkP Metric (-3)), (B "m"));
  ((mkP Metric (-2)), (B "c"));
  ((mkP Metric (-1)), (B "d"));
  ((mkP Metric (1)), (B "da"));
  ((mkP Metric (2)), (B "h"));
  ((mkP Metric (3)), (B "k"));
  ((mkP Metric (6)), (B "M"));
  ((mkP Metric (9)), (B "G"));
  ((mkP Metric (12)), (B "T"));
  ((mkP Metric (15)), (B "P"));
  ((mkP Metric (18)), (B "E"));
  ((mkP Metric (21)), (B "Z"));
  ((mkP Metric (24)), (B "Y"));
  ((mkP Metric (27)), (B "R"));
  ((mkP Metric (30)), (B "Q"));
  ((mkP Binary (10)), (B "Ki"));
  ((mkP Binary (20)), (B "Mi"));
  ((mkP Binary (30)), (B "Gi"));
  ((mkP Binary (40)), (B "Ti"));
  ((mkP Binary (50)), (B "Pi"));
  ((mkP Binary (60)), (B "Ei"));
  ((mkP Binary (70)), (B "Zi"));
  ((mkP Binary (80)), (B "Yi"));
  ((mkP Binary (90)), (B "Ri"));
  ((mkP Binary (100)), (B "Qi"))
].

Definition gen_render_long_tbl : list (prefix * bytes) := [
  (pnone, (B ""));
  ((mkP Metric (-30)), (B "quecto"));
  ((mkP Metric (-27)), (B "ronto"));
  ((mkP Metric (-24)), (B "yocto"));
  ((mkP Metric (-21)), (B "zepto"));
  ((mkP Metric (-18)), (B "atto"));
  ((mkP Metric (-15)), (B "femto"));
  ((mkP Metric (-12)), (B "pico"));
  ((mkP Metric (-9)), (B "nano"));
  ((mkP Metric (-6)), (B "micro"));
  ((mkP Metric (-3)), (B "milli"));
  ((mkP Metric (-2)), (B "centi"));
  ((mkP Metric (-1)), (B "deci"));
  ((mkP Metric (1)), (B "deca"));
  ((mkP Metric (2)), (B "hecto"));
  ((mkP Metric (3)), (B "kilo"));
  ((mkP Metric (6)), (B "mega"));
  ((mkP Metric (9)), (B "giga"));
  ((mkP Metric (12)), (B "tera"));
  ((mkP Metric (15)), (B "peta"));
  ((mkP Metric (18)), (B "exa"));
  ((mkP Metric (21)), (B "zetta"));
  ((mkP Metric (24)), (B "yotta"));
  ((mkP Metric (27)), (B "ronna"));
  ((mkP Metric (30)), (B "quetta"));
  ((mkP Binary (10)), (B "kibi"));
  ((mkP Binary (20)), (B "mebi"));
  ((mkP Binary (30)), (B "gibi"));
  ((mkP Binary (40)), (B "tebi"));
  ((mkP Binary (50)), (B "pebi"));
  ((mkP Binary (60)), (B "exbi"));
  ((mkP Binary (70)), (B "zebi"));
  ((mkP Binary (80)), (B "yobi"));
  ((mkP Binary (90)), (B "robi"));
  ((mkP Binary (100)), (B "quebi"))
].

Definition gen_factor_bits : list (prefix * Z) := [
  ((mkP Metric (-30)), 4158027847206421151%Z);
  ((mkP Metric (-27)), 4202930039008934928%Z);
  ((mkP Metric (-24)), 4247835366853742248%Z);
  ((mkP Metric (-21)), 4292743757239851855%Z);
  ((mkP Metric (-18)), 4337655138388951980%Z);
  ((mkP Metric (-15)), 4382569440205035030%Z);
  ((mkP Metric (-12)), 4427486594234968593%Z);
  ((mkP Metric (-9)), 4472406533629990549%Z);
  ((mkP Metric (-6)), 4517329193108106637%Z);
  ((mkP Metric (-3)), 4562254508917369340%Z);
  ((mkP Metric (-2)), 4576918229304087675%Z);
  ((mkP Metric (-1)), 4591870180066957722%Z);
  ((mkP Metric (1)), 4621819117588971520%Z);
  ((mkP Metric (2)), 4636737291354636288%Z);
  ((mkP Metric (3)), 4652007308841189376%Z);
  ((mkP Metric (6)), 4696837146684686336%Z);
  ((mkP Metric (9)), 4741671816366391296%Z);
  ((mkP Metric (12)), 4786511204640096256%Z);
  ((mkP Metric (15)), 4831355200913801216%Z);
  ((mkP Metric (18)), 4876203697187506176%Z);
  ((mkP Metric (21)), 4921056587992461136%Z);
  ((mkP Metric (24)), 4965913770331839924%Z);
  ((mkP Metric (27)), 5010775143622804482%Z);
  ((mkP Metric (30)), 5055640609639927018%Z);
  ((mkP Binary (10)), 4652218415073722368%Z);
  ((mkP Binary (20)), 4697254411347427328%Z);
  ((mkP Binary (30)), 4742290407621132288%Z);
  ((mkP Binary (40)), 4787326403894837248%Z);
  ((mkP Binary (50)), 4832362400168542208%Z);
  ((mkP Binary (60)), 4877398396442247168%Z);
  ((mkP Binary (70)), 4922434392715952128%Z);
  ((mkP Binary (80)), 4967470388989657088%Z);
  ((mkP Binary (90)), 5012506385263362048%Z);
  ((mkP Binary (100)), 5057542381537067008%Z)
].
